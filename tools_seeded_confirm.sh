#!/usr/bin/env bash
# Confirm seeded changes in ONE scratch worktree of /repo's HEAD (outside /repo and /verif), one after the other:
#   with the change:    it compiles, the demonstration test FAILS, the repository's stable tests all still pass
#   without the change: the demonstration test PASSES
# usage: tools_seeded_confirm.sh <dir-with-seeded-dirs> <ID> [<ID>...]      each <dir>/<ID>/ holds patch.diff, demo.rs, meta.json
# The scratch worktree and its build output are removed at the end. Results: <dir>/<ID>/confirm.txt
SRC="$1"; shift
# With VF_CONFIRM_WT=<existing scratch worktree> (e.g. the one the change was written in, build output warm) that worktree is
# reset to HEAD and used instead, its own target directory is kept, and several instances can run side by side.
export CARGO_NET_OFFLINE=true
if [ -n "${VF_CONFIRM_WT:-}" ]; then
  WT="$VF_CONFIRM_WT"; TMPD=$(mktemp -d /tmp/vf-seeded-confirm.XXXXXX)
else
  WT=/tmp/vf-seeded-confirm/wt; TMPD=/tmp/vf-seeded-confirm
  export CARGO_TARGET_DIR=/tmp/vf-seeded-confirm/target
  mkdir -p /tmp/vf-seeded-confirm
  git -C /repo worktree remove --force "$WT" 2>/dev/null
  git -C /repo worktree add --detach "$WT" HEAD >/dev/null 2>&1 || { echo "cannot create worktree"; exit 2; }
fi
for id in "$@"; do
  d="$SRC/$id"
  out="$d/confirm.txt"
  meta="$d/meta.json"
  tf=$(python3 -c "import json,re,sys; m=json.load(open('$meta')); print(re.match(r'\S+', m['demo_file']).group(0))")
  tn=$(python3 -c "import json,re,sys; m=json.load(open('$meta')); c=m['demo_cmd']; t=[x for x in c.split() if re.search(r'(^|::)test_\w+$', x)]; print(t[-1].split('::')[-1] if t else c.split(' -- ')[0].split()[-1])")
  cd "$WT" && git checkout -q -- . && git clean -fdq
  {
    echo "seeded change $id confirmed against /repo $(git -C /repo rev-parse --short HEAD) on $(date -u +%F)"
    echo "demonstration: $tf :: $tn"
    git apply "$d/patch.diff" || { echo "PATCH-DOES-NOT-APPLY"; continue; }
    cat "$d/demo.rs" >> "$tf"
    cargo test -p tree-sitter-cli --offline "$tn" > $TMPD/with.log 2>&1; rc_with=$?
    echo "with the change:    cargo test $tn -> exit $rc_with  ($(grep -m1 '^test result' $TMPD/with.log))"
    grep -m3 "panicked at\|assertion\|double free\|signal:\|SIGABRT\|SIGSEGV" $TMPD/with.log | cut -c1-300
    git apply -R "$d/patch.diff"
    cargo test -p tree-sitter-cli --offline "$tn" > $TMPD/without.log 2>&1; rc_without=$?
    echo "without the change: cargo test $tn -> exit $rc_without  ($(grep -m1 '^test result' $TMPD/without.log))"
    git checkout -q -- . && git apply "$d/patch.diff"
    /verif/tools_baseline.sh "$WT" $TMPD/baseline.log > $TMPD/base.out 2>&1; rc_base=$?
    echo "repository suite with the change: $(head -1 $TMPD/base.out) (exit $rc_base)"
    if [ $rc_with -ne 0 ] && [ $rc_without -eq 0 ] && [ $rc_base -eq 0 ]; then echo "CONFIRMED"; else echo "NOT-CONFIRMED"; fi
  } > "$out" 2>&1
  tail -1 "$out" | sed "s/^/$id: /"
done
cd /
if [ -z "${VF_CONFIRM_WT:-}" ]; then git -C /repo worktree remove --force "$WT"; fi
rm -rf "$TMPD"
