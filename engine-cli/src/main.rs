//! Helper for C20: runs the real corpus-test code path of the CLI library (tree_sitter_cli::test::run_tests_at_path)
//! against a language loaded from a shared library.
//!   vf-cli run <corpus_dir> <language.so> <language_name> <update|check>
use std::collections::BTreeMap;
use tree_sitter::{Language, Parser};
use tree_sitter_cli::test::{run_tests_at_path, TestOptions, TestStats, TestSummary};

fn load(so: &str, name: &str) -> Language {
    unsafe {
        let lib = libloading::Library::new(so).expect("dlopen");
        let f: libloading::Symbol<unsafe extern "C" fn() -> *const ()> = lib.get(format!("tree_sitter_{}", name).as_bytes()).expect("dlsym");
        let raw = *f;
        std::mem::forget(lib);
        Language::new(tree_sitter_language::LanguageFn::from_raw(raw))
    }
}

fn run_one(parser: &mut Parser, lang: &Language, name: &str, dir: &str, update: bool) -> String {
    let mut languages: BTreeMap<&str, &Language> = BTreeMap::new();
    languages.insert(name, lang);
    languages.insert("x", lang);
    languages.insert("y", lang);
    let opts = TestOptions { path: dir.into(), debug: false, debug_graph: false, include: None, exclude: None, file_name: None, update, open_log: false, languages, show_fields: false, overview_only: true };
    let mut summary = TestSummary::new(TestStats::TotalOnly, update, true, false);
    let r = run_tests_at_path(parser, &opts, &mut summary);
    format!("ok={} failures={} has_parse_errors={}", r.is_ok(), summary.parse_failures.len(), summary.has_parse_errors)
}

fn main() {
    let args: Vec<String> = std::env::args().collect();
    // vf-cli run-many <list-file> <so> <name> <update|check>: one independent run per directory listed in the file
    if args.len() >= 6 && args[1] == "run-many" {
        let lang = load(&args[3], &args[4]);
        let update = args[5] == "update";
        let mut parser = Parser::new();
        parser.set_language(&lang).unwrap();
        for dir in std::fs::read_to_string(&args[2]).expect("list file").lines() {
            println!("VF-RESULT-FOR {} {}", dir, run_one(&mut parser, &lang, &args[4], dir, update));
        }
        return;
    }
    if args.len() < 6 || args[1] != "run" { eprintln!("usage: vf-cli run <dir> <so> <name> <update|check>"); std::process::exit(2); }
    let lang = load(&args[3], &args[4]);
    let update = args[5] == "update";
    let mut parser = Parser::new();
    parser.set_language(&lang).unwrap();
    let mut languages: BTreeMap<&str, &Language> = BTreeMap::new();
    languages.insert(args[4].as_str(), &lang);
    languages.insert("x", &lang);
    languages.insert("y", &lang);
    let opts = TestOptions { path: args[2].clone().into(), debug: false, debug_graph: false, include: None, exclude: None, file_name: None, update, open_log: false, languages, show_fields: false, overview_only: true };
    let mut summary = TestSummary::new(TestStats::TotalOnly, update, true, false);
    let r = run_tests_at_path(&mut parser, &opts, &mut summary);
    println!("VF-RESULT ok={} failures={} has_parse_errors={}", r.is_ok(), summary.parse_failures.len(), summary.has_parse_errors);
}
