#!/usr/bin/env bash
# Which checks catch which seeded changes: every /verif/seeded/<ID>/patch.diff x every check (quick tier), run on a scratch
# copy of /verif bound to a scratch worktree of /repo's HEAD (outside /repo and /verif), so /repo itself is never touched.
# usage: tools_seeded_matrix.sh [<ID>...]        (default: all seeded changes)        output: /verif/seeded/MATRIX.txt
set -u
MX=/tmp/vf-matrix
IDS=("$@")
if [ ${#IDS[@]} -eq 0 ]; then IDS=($(ls /verif/seeded | grep '^C[0-9][0-9]$')); fi
CHECKS="C01 C02 C03 C04 C05 C06 C07 C08 C09 C10 C11 C12 C13 C14 C15 C16 C17 C18 C19 C20"
rm -rf "$MX/verif"; mkdir -p "$MX"
git -C /repo worktree remove --force "$MX/repo" 2>/dev/null
git -C /repo worktree add --detach "$MX/repo" HEAD >/dev/null 2>&1 || { echo "cannot create worktree"; exit 2; }
rsync -a --exclude work --exclude replays --exclude .git /verif/ "$MX/verif/"
grep -rl '/repo/' "$MX/verif/engine" "$MX/verif/engine-cli" --include=*.toml --include=*.rs | xargs sed -i "s#\"/repo/#\"$MX/repo/#g; s#path = \"/repo/#path = \"$MX/repo/#g"
OUT=/verif/seeded/MATRIX.txt
{
  echo "# seeded change (row) x check (column), quick tier, /repo $(git -C /repo rev-parse --short HEAD), $(date -u +%F)"
  echo "# V = exit 1 with VIOLATION lines, . = exit 0, E = machinery error (exit 2)"
  printf "%-6s" "seed"; for c in $CHECKS; do printf " %s" "${c#C}"; done; echo
} > "$OUT"
cd "$MX/verif" && ./vf setup > "$MX/setup.log" 2>&1
for id in "${IDS[@]}"; do
  ( cd "$MX/repo" && git checkout -q -- . && git apply "/verif/seeded/$id/patch.diff" ) || { echo "$id PATCH-DOES-NOT-APPLY" >> "$OUT"; continue; }
  printf "%-6s" "$id" >> "$OUT"
  for c in $CHECKS; do
    out=$(cd "$MX/verif" && ./vf check "$c" quick 2>&1); rc=$?
    case $rc in 0) m=" ." ;; 1) m=" V" ;; *) m=" E" ;; esac
    printf " %s" "$m" >> "$OUT"
  done
  echo >> "$OUT"
done
cd /
git -C /repo worktree remove --force "$MX/repo"
rm -rf "$MX"
cat "$OUT"
