//! The grammar zoo: small languages, each chosen to force one shortcut in the runtime or generator.
#![allow(dead_code)]
use crate::gram::*;
use crate::lang::LangSpec;

pub struct ZooLang {
    pub name: &'static str,
    pub spec: LangSpec,
    /// lexeme atoms used for sentence enumeration and as inserted text of edits
    pub lexemes: Vec<&'static str>,
    /// hand-written documents (valid and a few invalid)
    pub seeds: Vec<&'static str>,
    /// bytes that may be skipped between leaves (whitespace extras)
    pub skippable: &'static [u8],
    pub has_scanner: bool,
}

pub const ADVERSARIAL_ATOMS: &[&[u8]] = &[b"\0", b"\xEF\xBB\xBF", b"\r", b"\xFF", b"\xC3", "é".as_bytes(), "😀".as_bytes(), b"\n"];

fn spec(g: G, scanner: Option<&str>) -> LangSpec {
    LangSpec { name: g.name.clone(), grammar_json: g.to_json(), scanner_c: scanner.map(|s| s.to_string()) }
}

pub fn arith() -> ZooLang {
    let e = || sym("_expr");
    let g = G::new("arith")
        .rule("source", opt(e()))
        .rule("_expr", choice(vec![sym("number"), sym("var"), sym("binary"), sym("unary"), sym("paren"), sym("call")]))
        .rule("binary", choice(vec![
            prec_left(1, seq(vec![field("left", e()), field("op", s("+")), field("right", e())])),
            prec_left(1, seq(vec![field("left", e()), field("op", s("-")), field("right", e())])),
            prec_left(2, seq(vec![field("left", e()), field("op", s("*")), field("right", e())])),
            prec_right(3, seq(vec![field("left", e()), field("op", s("^")), field("right", e())])),
        ]))
        .rule("unary", prec(4, seq(vec![s("-"), field("arg", e())])))
        .rule("paren", seq(vec![s("("), e(), s(")")]))
        // (the same field on every element of a separated list: it reaches the elements through a hidden repeat node)
        .rule("call", prec(5, seq(vec![field("fn", sym("var")), s("("), sep(",", field("arg", e())), s(")")])))
        .rule("number", pat("[0-9]+"))
        .rule("var", pat("[a-z]+"));
    ZooLang {
        name: "arith", spec: spec(g, None),
        lexemes: vec!["1", "x", "+", "*", "^", "-", "(", ")", ",", " "],
        seeds: vec!["", "1", "1+2*3", "(1+x)*y^2^3", "-x*-(y+1)", "f(1,g(x),y)-2", "1 +\n 2 *\n  (3 - x)", "1+", "(1", "1 2", "f(,)", "((((1))))", "a*b+c*d-e*f+g^h^i", "f(1,2,3,4)"],
        skippable: b" \t\r\n", has_scanner: false,
    }
}

pub fn stmts() -> ZooLang {
    let e = || sym("_expr");
    let g = G::new("stmts")
        .word("identifier")
        .supertype("_expr")
        .inline("_inl_stmt")
        .rule("program", rep(sym("_statement")))
        .rule("_statement", choice(vec![sym("let_stmt"), sym("if_stmt"), sym("_inl_stmt"), sym("block"), sym("fn_def"), sym("empty_stmt"), sym("annotation"), sym("sigil_decl"), sym("use_stmt"), sym("from_stmt")]))
        // one visible rule under two different aliases in two productions of the same parent: replacing the sigil switches the
        // production, and with it the child's node type, without touching the child
        .rule("sigil_decl", choice(vec![seq(vec![s("$"), alias(sym("identifier"), "variable", true), s(";")]), seq(vec![s("%"), alias(sym("identifier"), "module", true), s(";")]),
            // ... and under an ANONYMOUS per-production alias (identifier also occurs un-aliased, so this is no default alias)
            seq(vec![s("&"), alias(sym("identifier"), "target", false), s(";")])]))
        // `block_comment` is an extra AND a regular member of this rule: a reused comment token can change its extra-ness
        .rule("annotation", seq(vec![s("@"), sym("block_comment")]))
        // a rule that ENDS in a repetition (greedy): appended elements extend the repetition of a reused node
        .rule("use_stmt", prec_right(0, seq(vec![s("use"), rep1(sym("identifier"))])))
        // a statement whose FIRST child ends in a repetition (and is followed by a terminator)
        .rule("from_stmt", seq(vec![sym("path_list"), s(";")]))
        .rule("path_list", seq(vec![s("from"), rep1(sym("identifier"))]))
        .rule("_inl_stmt", sym("expr_stmt"))
        .rule("empty_stmt", s(";"))
        .rule("let_stmt", seq(vec![s("let"), field("name", alias(sym("identifier"), "name", true)), s("="), field("value", e()), s(";")]))
        .rule("if_stmt", prec_right(0, seq(vec![s("if"), field("cond", e()), field("then", sym("block")),
            opt(seq(vec![s("else"), field("else", choice(vec![sym("block"), sym("if_stmt")]))]))])))
        // the field sits on a repeat, i.e. on a hidden auxiliary node: comments between statements land INSIDE a fielded hidden node
        .rule("block", seq(vec![s("{"), field("stmt", rep(sym("_statement"))), s("}")]))
        .rule("fn_def", seq(vec![s("fn"), field("name", sym("identifier")), field("params", sym("params")), field("body", sym("block"))]))
        .rule("params", seq(vec![s("("), sep(",", sym("identifier")), s(")")]))
        .rule("expr_stmt", seq(vec![e(), s(";")]))
        .rule("_expr", choice(vec![sym("identifier"), sym("number"), sym("binary"), sym("call"), sym("paren"), sym("range")]))
        .rule("binary", choice(vec![
            prec_left(1, seq(vec![field("left", e()), field("op", choice(vec![s("+"), s("-")])), field("right", e())])),
            prec_left(2, seq(vec![field("left", e()), field("op", s("*")), field("right", e())])),
        ]))
        .rule("range", prec_left(0, seq(vec![field("from", e()), choice(vec![s(".."), alias(s("..."), "dots", false)]), field("to", e())])))
        .rule("call", prec(3, seq(vec![field("fn", e()), field("args", sym("args"))])))
        .rule("args", seq(vec![s("("), sep(",", e()), s(")")]))
        .rule("paren", seq(vec![s("("), e(), s(")")]))
        .rule("identifier", pat("[a-z_]+"))
        .rule("number", pat("[0-9]+"))
        .rule("comment", token(seq(vec![s("#"), pat("[^\\n]*")])))
        .rule("block_comment", token(seq(vec![s("/*"), pat("[^*]*\\*+([^/*][^*]*\\*+)*"), s("/")])))
        // a NON-TERMINAL extra: `~ name` may appear anywhere, is reduced like a rule and then attached as an extra
        .rule("pragma", seq(vec![s("~"), sym("identifier")]))
        .extras(vec![pat("\\s"), sym("comment"), sym("block_comment"), sym("pragma")]);
    ZooLang {
        name: "stmts", spec: spec(g, None),
        lexemes: vec!["let", "if", "else", "fn", "use", "from", "a", "1", "=", ";", "{", "}", "(", ")", "+", "*", "..", "...", ",", "#c\n", "/*c*/", "@", "$", "%", "&", "~", " ", "\n"],
        seeds: vec![
            "", "a;", "let a = 1;", "let x = a + 1 * b;\nf(x, 2);\n", "if a { b; } else { c; }", "if a { } else if b { c; } else { d; }",
            "fn f(a, b) { let c = a..b; g(c)(1); }", "{ a; # note\n b; /* x */ c; }", "let a = (1 + 2) * 3 ... 4;", "lett = 1;", "let let = 1;",
            "if a { b;", "a b;", "fn (a) {}", "let a = 1 @;", "{{{ a; }}}", "a;b;c;d;e;f;g;h;", "iff; elsee; fnn; if_x;", "let é = 1;", "1..2...3;", "@ /*a\nb*/ x;", "@/*c*/ /*d*/ @ /*e*/",
            // keyword text used as an identifier (a keyword is only a keyword where the grammar allows it), first leaf of a call
            "a+if(b);", "a*let(b);", "a+fn(b);", "f(else);", "$a; %b;", "$ if;", "a ~x + b; ~y", "let ~p a = ~q 1;", "{ ~a }", "~", "~ let",
            // an operand, then extras, then the token that decides how the operand is reduced
            "a + 1 ~b;", "a + 1 /*c*/;", "a + 1 ~b ~c ;", "a + 1 #c\n;",
            // ... with a HEAP-allocated extra (a comment over two lines, a long one) on top of the operand
            "a + 1 /*c\nd*/;", "f(a) /*c\nd*/ ;", "{ a; /*c\nd*/ }", "a + 1 # a comment that is rather long .................................................................................................................................................................................................................................................................\n;",
            // an extra directly in front of a child that carries a per-production alias (named and anonymous aliases)
            "a /*c*/ ... b;", "a #c\n... b;", "a ~x ... b;", "let /*c*/ a = 1;", "$ /*c*/ a; % ~x b;", "& a;", "& /*c*/ a; & ~x b; & #c\n c;", "a .. /*c*/ b ... /*d*/ c;",
            // shadowing: a parameter, a let in the function's block and a let in an inner block share one name
            "fn f(a) { let a = 1; a; } a;", "let a = 1; fn f(a) { a; { let a = 2; a; } a; }",
            // a supertype member without and one with a child of a given kind, in this order, below one parent
            "a + (1); f(b, (2)); (c) * (d + 1);",
            // extras between every two adjacent children of a fixed sequence
            "let a /*c*/ = 1; let b = #d\n 2; a + /*c*/ b; f /*c*/ (x);",
            // a let whose value spells its name, between others
            "let a = a; let b = a; let c = c;",
            // a statement whose first child ends in a repetition
            "from a;", "from a b c d; from e f; a;", "{ from a b c; }",
            // a rule that ends in a repetition
            "use a", "use a b c d", "use a b c d e f g h  ", "use a b; use c d e\nuse use", "{ use a b c d }",
        ],
        skippable: b" \t\r\n", has_scanner: false,
    }
}

pub fn jsonish() -> ZooLang {
    let v = || sym("_value");
    let g = G::new("jsonish")
        .rule("document", opt(v()))
        .rule("_value", choice(vec![sym("object"), sym("array"), sym("string"), sym("number"), sym("true"), sym("false"), sym("null")]))
        .rule("object", seq(vec![s("{"), sep(",", sym("pair")), s("}")]))
        .rule("pair", seq(vec![field("key", sym("string")), s(":"), field("value", v())]))
        .rule("array", seq(vec![s("["), sep(",", v()), s("]")]))
        .rule("string", seq(vec![s("\""), rep(choice(vec![sym("string_content"), sym("escape")])), s("\"")]))
        .rule("string_content", imm(prec(1, pat("[^\"\\\\\\n]+"))))
        .rule("escape", imm(pat("\\\\.")))
        .rule("number", pat("-?[0-9]+"))
        .rule("true", s("true"))
        .rule("false", s("false"))
        .rule("null", s("null"));
    ZooLang {
        name: "jsonish", spec: spec(g, None),
        lexemes: vec!["{", "}", "[", "]", ",", ":", "\"a\"", "\"é😀\"", "\"\\n\"", "\"", "1", "-2", "true", "null", " ", "\n"],
        seeds: vec![
            "", "1", "[1,2,3]", "{\"a\":1,\"b\":[true,false,null]}", "[[[]],{}]", "\"a\\nb\"", "\"é😀x\"", "{\"k\": {\"k\": {\"k\": []}}}",
            "[1,\n 2,\n 3]\n", "[1,", "{\"a\"}", "\"abc", "[1 2]", "{\"a\":1,}", "tru", "[\"a b\", \"c\"]",
        ],
        skippable: b" \t\r\n", has_scanner: false,
    }
}

pub fn glr() -> ZooLang {
    let g = G::new("glr")
        .conflict(&["type_name", "_expr"])
        .rule("program", rep(sym("_stmt")))
        .rule("_stmt", choice(vec![sym("decl"), sym("expr_stmt")]))
        .rule("decl", prec_dyn(1, seq(vec![field("type", sym("type_name")), field("declarator", sym("_declarator")), s(";")])))
        .rule("type_name", sym("identifier"))
        .rule("_declarator", choice(vec![sym("identifier"), sym("ptr_decl"), sym("fn_decl")]))
        .rule("ptr_decl", seq(vec![s("*"), sym("_declarator")]))
        .rule("fn_decl", prec(1, seq(vec![sym("identifier"), s("("), opt(sym("identifier")), s(")")])))
        .rule("expr_stmt", seq(vec![sym("_expr"), s(";")]))
        .rule("_expr", choice(vec![sym("identifier"), sym("mul"), sym("call"), sym("number")]))
        .rule("mul", prec_left(1, seq(vec![sym("_expr"), s("*"), sym("_expr")])))
        .rule("call", prec(2, seq(vec![sym("_expr"), s("("), opt(sym("_expr")), s(")")])))
        .rule("identifier", pat("[a-z]+"))
        .rule("number", pat("[0-9]+"));
    ZooLang {
        name: "glr", spec: spec(g, None),
        lexemes: vec!["a", "b", "1", "*", ";", "(", ")", " "],
        seeds: vec!["", "a;", "a * b;", "a * b * c;", "a b;", "a * * b;", "a * 1;", "a b(c);", "a(b);", "a * b(c);", "a * b; c * d; e f; g(h);", "a * ;", "a b c;", "a * b\n;\n"],
        skippable: b" \t\r\n", has_scanner: false,
    }
}

pub fn lexla() -> ZooLang {
    let g = G::new("lexla")
        .rule("source", rep(sym("_item")))
        .rule("_item", choice(vec![sym("dot"), sym("dots2"), sym("dots3"), sym("ab"), sym("abcd"), sym("ident"), sym("decimal"), sym("regex"), sym("slash"), sym("arrow"), sym("minus"), sym("emoji"), sym("accented")]))
        .rule("emoji", s("😀"))
        .rule("accented", pat("[éà☃]+"))
        .rule("dot", s("."))
        .rule("dots2", s(".."))
        .rule("dots3", s("..."))
        .rule("ab", s("ab"))
        .rule("abcd", s("abcd"))
        .rule("ident", pat("[a-z]+"))
        .rule("decimal", pat("[0-9]+(\\.[0-9]+)?"))
        .rule("regex", pat("/[a-z]+/"))
        .rule("slash", s("/"))
        .rule("arrow", s("-->"))
        .rule("minus", s("-"));
    ZooLang {
        name: "lexla", spec: spec(g, None),
        lexemes: vec![".", "..", "a", "ab", "abc", "d", "1", "/", "-", ">", " ", "\n", "😀", "é☃"],
        seeds: vec!["", "ab", "abcd", "abcx", "abc d", "a.b", "1.5", "1..5", "1...5", "1.x", "/ab/", "/ab", "/ ab /", "-->", "-- >", "--x", "ab abcd abc . .. ... 1.5.6", "....", "ab/cd/ef/", "😀é☃à", "a😀b", "é.😀..☃"],
        skippable: b" \t\r\n", has_scanner: false,
    }
}

/// Tokens that scan far ahead and then fall back: `tagged` = /[a-z]+(-[a-z]+)*!/ reads a whole dashed run before it can
/// fail and give way to `word`; with `pair` the token whose look-ahead is long is a NON-last child of an inner node.
pub fn lookfar() -> ZooLang {
    let g = G::new("lookfar")
        .rule("source", rep(choice(vec![sym("tagged"), sym("pair"), sym("word"), sym("bang")])))
        .rule("pair", seq(vec![field("left", sym("word")), s("-")]))
        .rule("tagged", pat("[a-z]+(-[a-z]+)*!"))
        .rule("word", pat("[a-z]+"))
        .rule("bang", s("!"));
    ZooLang {
        name: "lookfar", spec: spec(g, None),
        lexemes: vec!["a", "bc", "-", "!", " ", "\n"],
        seeds: vec!["", "a", "a!", "a-bc", "a-bc!", "a-b-cd", "a-b-cd!", "ab-cd-ef g", "a-bc d-e!", "a- b", "a-bbbbbbbbbbbbbb", "a-bbbbbbbbbbbbbbb", "a-bbbbbbbbbbbbbbbb", "a-b-c-d-e-f-g-h-i-j", "-", "a--b"],
        skippable: b" \t\r\n", has_scanner: false,
    }
}

/// Groups `name 7 {+ k = 1; ... }` / `name 7 {- ... }`: whether the leading name is a head_a or a head_b is known only
/// after the `+` / `-` inside the braces, so the parser carries two stack versions for a few tokens at every group (a GLR
/// fork that is resolved inside the following large sibling subtree).
pub fn groups() -> ZooLang {
    let entry = || seq(vec![sym("identifier"), s("="), sym("number"), s(";")]);
    let g = G::new("groups")
        .conflict(&["head_a", "head_b"])
        .rule("program", rep(choice(vec![sym("group_a"), sym("group_b")])))
        .rule("group_a", seq(vec![sym("head_a"), sym("number"), sym("body_a")]))
        .rule("group_b", seq(vec![sym("head_b"), sym("number"), sym("body_b")]))
        .rule("head_a", sym("identifier"))
        .rule("head_b", sym("identifier"))
        .rule("body_a", seq(vec![s("{"), s("+"), rep(sym("entry")), s("}")]))
        .rule("body_b", seq(vec![s("{"), s("-"), rep(sym("entry")), s("}")]))
        .rule("entry", entry())
        .rule("identifier", pat("[a-z]+"))
        .rule("number", pat("[0-9]+"));
    ZooLang {
        name: "groups", spec: spec(g, None),
        lexemes: vec!["a", "7", "{", "+", "-", "}", "=", ";", " "],
        seeds: vec!["", "a 7 {+ }", "a 7 {- k = 1; }", "a 7 {+ k = 1; k = 2; } b 8 {- k = 3; }", "a 7 { k = 1; }", "a 7 {+ k = 1;"],
        skippable: b" \t\r\n", has_scanner: false,
    }
}

/// Reserved-word sets: `if` and `var` are reserved everywhere except in property position (after `.` and before `:`),
/// where only `var` is; so `a.if;` and `{ if: x, };` are fine while `a.var;` is not.
pub fn resv() -> ZooLang {
    let e = || sym("_expr");
    let g = G::new("resv")
        .word("identifier")
        .reserved_set("global", &["if", "var"])
        .reserved_set("property", &["var"])
        .rule("program", rep(sym("_statement")))
        .rule("_statement", choice(vec![sym("var_decl"), sym("if_stmt"), sym("expr_stmt")]))
        .rule("var_decl", seq(vec![s("var"), field("name", sym("identifier")), s("="), e(), s(";")]))
        .rule("if_stmt", seq(vec![s("if"), sym("paren"), sym("block")]))
        .rule("block", seq(vec![s("{"), rep(sym("_statement")), s("}")]))
        .rule("expr_stmt", seq(vec![e(), s(";")]))
        .rule("_expr", choice(vec![sym("identifier"), sym("paren"), sym("member"), sym("object")]))
        .rule("paren", seq(vec![s("("), e(), s(")")]))
        .rule("member", prec_left(1, seq(vec![field("object", e()), s("."), field("property", reserved("property", sym("identifier")))])))
        .rule("object", seq(vec![s("{"), rep(seq(vec![sym("pair"), s(",")])), s("}")]))
        .rule("pair", seq(vec![field("key", reserved("property", sym("identifier"))), s(":"), field("value", e())]))
        .rule("identifier", pat("[a-z_]+"));
    ZooLang {
        name: "resv", spec: spec(g, None),
        lexemes: vec!["if", "var", "a", ".", ":", ",", ";", "{", "}", "(", ")", "=", " "],
        seeds: vec!["", "a;", "var a = b;", "a.if;", "a.var;", "if (a) { b; }", "{ if: a, b: c, };", "{ var: a, };", "var if = a;", "if.a;", "a.if.b;", "var a = { if: b.if, };", "iff; vara; a.iff;", "if (a.if) { var b = a; }"],
        skippable: b" \t\r\n", has_scanner: false,
    }
}

pub const INDENT_SCANNER: &str = include_str!("../../zoo/indent_scanner.c");
pub const PSTRING_SCANNER: &str = include_str!("../../zoo/pstring_scanner.c");

/// Python-like blocks; the scanner keeps an indent stack which it serialises completely.
/// `levels` nested blocks: the scanner's serialised state is 1 + levels + 1 bytes at the innermost tokens (an external
/// scanner state of more than 24 bytes is kept on the heap, shorter ones inline in the token).
pub fn deep_indent_doc(levels: usize) -> String {
    let mut s = String::new();
    for i in 0..levels { s.push_str(&" ".repeat(i)); s.push_str("a:\n"); }
    s.push_str(&" ".repeat(levels)); s.push_str("b c\n");
    s.push_str(&" ".repeat(levels)); s.push_str("d\n");
    s
}

/// `levels` percent-strings nested through interpolations: 1 + 3 * levels bytes of scanner state.
pub fn deep_pstring_doc(levels: usize) -> String {
    format!("{}x{} w", "%(a#{".repeat(levels), "}b)".repeat(levels))
}

fn leak(s: String) -> &'static str { Box::leak(s.into_boxed_str()) }

pub fn indent() -> ZooLang {
    let g = G::new("indent")
        .external(sym("_newline")).external(sym("_indent")).external(sym("_dedent"))
        .rule("module", rep(sym("_stmt")))
        .rule("_stmt", choice(vec![sym("simple"), sym("block_stmt")]))
        .rule("simple", seq(vec![sym("name"), rep(sym("name")), sym("_newline")]))
        .rule("block_stmt", seq(vec![field("head", sym("name")), s(":"), sym("_newline"), sym("_indent"), field("body", sym("body")), sym("_dedent")]))
        .rule("body", rep1(sym("_stmt")))
        .rule("name", pat("[a-z]+"))
        .extras(vec![pat("\\s")]);
    ZooLang {
        name: "indent", spec: spec(g, Some(INDENT_SCANNER)),
        lexemes: vec!["a", "b:", "\n", " ", "  ", ":"],
        seeds: vec![
            "", "a\n", "a b\n", "a:\n b\n", "a:\n b\n c\nd\n", "a:\n b:\n  c\n d\ne\n", "a:\n b:\n  c\n", "a:\n  b\n  c\n", "a:\nb\n", "a:\n b\n  c\n",
            "a\n\n\nb\n", "a:\n\n b\n\nc\n", "a", "a:\n b", "a:\n b:\n  c:\n   d\n  e\n f\ng\n", " a\n",
            // scanner states of 24 (inline) and 25, 28 bytes (heap)
            leak(deep_indent_doc(22)), leak(deep_indent_doc(23)), leak(deep_indent_doc(26)),
        ],
        skippable: b" \t\r\n", has_scanner: true,
    }
}

/// Percent-strings with nested delimiters: `%(a(b)c)`, `%[..]`; the scanner serialises (open, close, depth).
pub fn pstring() -> ZooLang {
    let g = G::new("pstring")
        .external(sym("pstring_start")).external(sym("pstring_content")).external(sym("pstring_end"))
        .rule("source", rep(sym("_item")))
        .rule("_item", choice(vec![sym("pstring"), sym("word"), sym("number"), sym("paren")]))
        .rule("pstring", seq(vec![sym("pstring_start"), rep(choice(vec![sym("pstring_content"), sym("interp")])), sym("pstring_end")]))
        .rule("interp", seq(vec![s("#{"), rep(sym("_item")), s("}")]))
        .rule("paren", seq(vec![s("("), rep(sym("_item")), s(")")]))
        .rule("word", pat("[a-z]+"))
        .rule("number", pat("[0-9]+"));
    ZooLang {
        name: "pstring", spec: spec(g, Some(PSTRING_SCANNER)),
        lexemes: vec!["%(", "%[", "(", ")", "[", "]", "a", "1", "#{", "}", " "],
        seeds: vec![
            "", "a 1", "%(a)", "%(a(b)c)", "%[a(b]", "%(a) %[b]", "%(a#{b 1}c)", "%(a#{%[x]}c)", "(a %(b) c)", "%(a", "%(a(b)", "%(a#{b)", "a) b", "%(a#{(b)}c) d",
            "%(x\ny)", "%((()))",
            // scanner states of 22 (inline) and 25, 28 bytes (heap)
            leak(deep_pstring_doc(7)), leak(deep_pstring_doc(8)), leak(deep_pstring_doc(9)),
        ],
        skippable: b" \t\r\n", has_scanner: true,
    }
}

pub const COLM_SCANNER: &str = include_str!("../../zoo/colm_scanner.c");

/// Tokens whose kind depends on the column they start at (the scanner calls `get_column`): a zero-width `odd`/`even`
/// token before every `!`, and `@` as `at_low` (column < 4) or `at_high`. Reuse of such tokens after an edit is sound
/// only if the edit did not move them within their line (`depends_on_column` in the runtime).
pub fn colm() -> ZooLang {
    let g = G::new("colm")
        .external(sym("odd")).external(sym("even")).external(sym("at_low")).external(sym("at_high"))
        .rule("source", rep(sym("_item")))
        .rule("_item", choice(vec![sym("mark"), sym("word"), sym("group"), sym("at_low"), sym("at_high")]))
        .rule("mark", seq(vec![choice(vec![sym("odd"), sym("even")]), s("!")]))
        .rule("group", seq(vec![s("("), rep(sym("_item")), s(")")]))
        .rule("word", pat("[a-zé]+"))
        .extras(vec![pat("\\s")]);
    ZooLang {
        name: "colm", spec: spec(g, Some(COLM_SCANNER)),
        lexemes: vec!["!", "@", "a", "ab", "é", " ", "\n", "(", ")"],
        seeds: vec![
            "", "!", " !", "a !", "ab !\n!", "a\n !\n  !", "(a !) !", "a (b\n!) !", "a !\nb !\n", "a ! b ! c !", "@ a @ ab @", "abc\n@ (a @\n @) !",
            "c =\n do d\n    !\n@\n", "a\n(! b (! @) !) @ !\n", "é ! é @ !", "(a\n ! (b\n  ! @))", "!!", "a) ! (", "(\n\n!\n@)\n\n !",
        ],
        skippable: b" \t\r\n", has_scanner: true,
    }
}

pub const DOCOL_SCANNER: &str = include_str!("../../zoo/docol_scanner.c");

/// The repository's own `uses_current_column` test grammar: a `do` block is as deep as the column of the token after `do`,
/// so the scanner STATE depends on columns inside a line (an edit earlier on the line, or joining two lines, moves them).
pub fn docol() -> ZooLang {
    let e = || sym("_expression");
    let g = G::new("docol")
        .external(sym("_indent")).external(sym("_dedent")).external(sym("_newline"))
        .rule("block", rep1(sym("_statement")))
        .rule("_statement", seq(vec![e(), sym("_newline")]))
        .rule("_expression", choice(vec![sym("do_expression"), sym("binary_expression"), sym("identifier")]))
        .rule("do_expression", seq(vec![s("do"), sym("_indent"), sym("block"), sym("_dedent")]))
        .rule("binary_expression", prec_left(1, seq(vec![e(), choice(vec![s("="), s("+"), s("-")]), e()])))
        .rule("identifier", pat("\\w+"));
    ZooLang {
        name: "docol", spec: spec(g, Some(DOCOL_SCANNER)),
        lexemes: vec!["do", "a", "=", "+", "\n", " ", "   "],
        seeds: vec![
            "a\n", "a = b\n", "c =\n do d\n    e\nf\n", "c = \n do d\n    e\nf\n", "a = do b\n       c\nd\n", "do a\n   b\nc\n", "do do a\n      b\n   c\nd\n",
            "x = do a\n       do b\n          c\n       d\ne\n", "a = do b\n c\n", "a\n\n\nb\n", "do\n a\nb\n", "a +\n", "do a", "a = do b + c\n       d - e\n\nf = g\n",
        ],
        skippable: b" \t\r\n", has_scanner: true,
    }
}

/// Context-dependent lexing without a `word` token: after `y` an explicit line-break token may follow (elsewhere the line
/// break is white space), after `z` the string `a` is a token of its own (elsewhere it is an identifier). A token lexed in
/// one state is only reusable in another if no token that is valid THERE would have won at that place.
pub fn nlctx() -> ZooLang {
    let g = G::new("nlctx")
        .rule("program", rep(sym("statement")))
        .rule("statement", choice(vec![
            seq(vec![s("x"), sym("identifier"), s(";")]),
            seq(vec![s("y"), opt(sym("newline")), sym("identifier"), s(";")]),
            seq(vec![s("z"), opt(sym("kw_a")), sym("identifier"), s(";")]),
        ]))
        .rule("identifier", pat("[a-w]+"))
        .rule("newline", s("\n"))
        .rule("kw_a", s("a"))
        .extras(vec![pat("\\s")]);
    ZooLang {
        name: "nlctx", spec: spec(g, None),
        lexemes: vec!["x", "y", "z", "a", "bc", "\n", ";", " "],
        seeds: vec!["", "x\nab;\nx\ncd;\n", "y\nab;\nx\ncd;\n", "y ab;", "x a;", "z a b;", "z a;", "x a; z a b; y\n c;", "y\n\nab;", "z\na\nb;", "x", "y\n;", "z a a;"],
        skippable: b" \t\r\n", has_scanner: false,
    }
}

pub const SEAM_SCANNER: &str = include_str!("../../zoo/seam_scanner.c");

/// A scanner that queries range boundaries: a word that begins at the first byte of an included range is a `seam_word`.
/// Used by C13 only, with its own expectation (the concatenated text has no seams to ask about); it is not part of the core
/// zoo because two range lists that cover the same bytes in different pieces are the same input to the runtime's reuse logic
/// and a different one to this scanner.
pub fn seam() -> ZooLang {
    let g = G::new("seam")
        .external(sym("seam_word")).external(sym("plain_word"))
        .rule("source", rep(choice(vec![sym("seam_word"), sym("plain_word"), sym("number"), sym("group")])))
        .rule("group", seq(vec![s("("), rep(choice(vec![sym("seam_word"), sym("plain_word"), sym("number")])), s(")")]))
        .rule("number", pat("[0-9]+"))
        .extras(vec![pat("\\s")]);
    ZooLang {
        name: "seam", spec: spec(g, Some(SEAM_SCANNER)),
        lexemes: vec!["a", "bc", "1", " ", "(", ")"],
        seeds: vec!["", "a", "ab cd", "a 1 b", "(a b) c", "ab(cd)ef", " a", "a\nb c\n", "1a2b", "(a", "a) b"],
        skippable: b" \t\r\n", has_scanner: true,
    }
}

pub const MODAL_SCANNER: &str = include_str!("../../zoo/modal_scanner.c");

/// Scanner state that flows across siblings: `!` toggles a mode, and every later word is a `loud_word` or a `plain_word`
/// by the mode. An edit that adds or removes the document's first `!` changes the children of every later group without
/// touching them (same symbol, same size), which only the scanner state in front of them reveals.
pub fn modal() -> ZooLang {
    let g = G::new("modal")
        .external(sym("bang")).external(sym("loud_word")).external(sym("plain_word"))
        .rule("source", rep(sym("_item")))
        .rule("_item", choice(vec![sym("bang"), sym("loud_word"), sym("plain_word"), sym("group"), sym("number")]))
        .rule("group", seq(vec![s("["), rep(sym("_item")), s("]")]))
        .rule("number", pat("[0-9]+"))
        .extras(vec![pat("\\s")]);
    ZooLang {
        name: "modal", spec: spec(g, Some(MODAL_SCANNER)),
        lexemes: vec!["!", "1", "a", "[", "]", " "],
        seeds: vec![
            "", "a", "! a", "1   [abc]", "!   [abc]", "[a] ! [b] ! [c]", "1 [a [b] c] [d]", "[a ! b] c", "a [! [b]] c", "1 [a", "] a ! b", "[[a] 1 [b]] ! [[c]]", "1 [a] 2 [b] 3 [c] 4 [d]",
        ],
        skippable: b" \t\r\n", has_scanner: true,
    }
}

pub fn tmpl() -> ZooLang {
    let g = G::new("tmpl")
        .rule("template", rep(choice(vec![sym("text"), sym("directive"), sym("output")])))
        .rule("directive", seq(vec![s("<%"), opt(sym("code")), s("%>")]))
        .rule("output", seq(vec![s("<%="), opt(sym("code")), s("%>")]))
        .rule("code", pat("([^%=<]|%[^>])([^%]|%[^>])*"))
        .rule("text", pat("([^<]|<[^%])+"))
        .extras(vec![]);
    ZooLang {
        name: "tmpl", spec: spec(g, None),
        lexemes: vec!["<%", "<%=", "%>", "a", "1+2", " ", "\n", "<", "%"],
        seeds: vec!["", "a", "<% 1+2 %>", "a<%= x*2 %>b", "<% 1 %><% 2 %>", "x <% 1+\n2 %> y <%= 3 %> z\n", "<% 1", "a %> b", "<%%>"],
        skippable: b"", has_scanner: false,
    }
}

/// Small language for the tags checks: functions, classes, calls, lets, doc comments, Unicode identifiers.
pub fn tagl() -> ZooLang {
    let g = G::new("tagl")
        .rule("source", rep(sym("_item")))
        .rule("_item", choice(vec![sym("fn_def"), sym("class_def"), sym("call"), sym("let"), sym("lambda")]))
        // a scope whose LAST token is a reference: `\\x => x`
        .rule("lambda", seq(vec![s("\\"), field("param", sym("ident")), s("=>"), field("body", sym("ident"))]))
        .rule("fn_def", seq(vec![s("fn"), field("name", sym("ident")), field("params", sym("params")), field("body", sym("block"))]))
        .rule("params", seq(vec![s("("), sep(",", sym("ident")), s(")")]))
        .rule("class_def", seq(vec![s("class"), field("name", sym("ident")), field("body", sym("block"))]))
        .rule("block", seq(vec![s("{"), rep(sym("_item")), s("}")]))
        .rule("call", seq(vec![field("fn", sym("ident")), field("args", sym("args")), s(";")]))
        .rule("args", seq(vec![s("("), sep(",", sym("ident")), s(")")]))
        .rule("let", seq(vec![s("let"), field("name", sym("ident")), s(";")]))
        .rule("ident", pat("[\\p{L}_][\\p{L}\\p{N}_]*"))
        .rule("comment", token(seq(vec![s("#"), pat("[^\\n]*")])))
        .rule("block_comment", token(seq(vec![s("/*"), pat("[^*]*\\*+([^/*][^*]*\\*+)*"), s("/")])))
        .word("ident")
        .extras(vec![pat("\\s"), sym("comment"), sym("block_comment")]);
    ZooLang {
        name: "tagl", spec: spec(g, None),
        lexemes: vec!["fn", "class", "let", "f", "é", "skip", "(", ")", "{", "}", ";", ",", "# d\n", "\n", " ", "/*é*/", "\\", "=>", "/*a\nb*/\n"],
        seeds: vec![
            "", "fn f() {}", "# doc\nfn f(a, b) { a(); g(b); }", "class C { fn m() { m(); } }", "f(); g(x, y);", "let f; f(); g();", "fn f(x) { x(); y(); } x();",
            "# one\n# two\nfn f() {}", "# far\n\nfn f() {}", "skip(); f(); skip();", "fn é() { é(); } /*😀*/ naïve(); /*é*/ f();", "fn f( {", "f(;", "fn f() { let g; g(); { g(); } } g();",
            "f(); g(); h(); i();", "  f();\r\n  g();\r\n",
            // a doc chain through a comment that spans several rows
            "# intro\n/*first\n second*/\nfn f() {}", "# a\n/*b\nc\nd*/\n# e\nfn g() {}", "/*x\ny*/\n\nfn h() {}", "# far\n\n/*b\nc*/\nfn i() {}",
            "\\x => x", "\\x => y", "fn f(a) { \\b => a \\c => c }", "let x; \\y => x", "\\x => x f(); x();", "{ let g; \\h => g }", "\\f => f\n",
        ],
        skippable: b" \t\r\n", has_scanner: false,
    }
}

/// Language for the corpus-update checks: words and runs of '=', '-' and '|||' so that delimiter-looking lines are valid input.
pub fn corpl() -> ZooLang {
    let g = G::new("corpl")
        .rule("source", rep(choice(vec![sym("word"), sym("eqs"), sym("dashes"), sym("bars"), sym("group")])))
        .rule("group", seq(vec![s("("), rep(sym("word")), s(")")]))
        .rule("word", pat("[a-z]+"))
        .rule("eqs", pat("=+"))
        .rule("dashes", pat("-+"))
        .rule("bars", s("|||"));
    ZooLang { name: "corpl", spec: spec(g, None), lexemes: vec!["a", "===", "---", "|||", "(", ")", " ", "\n"], seeds: vec!["a b", "(a b) c", "===", "a\n---\nb"], skippable: b" \t\r\n", has_scanner: false }
}

pub fn fixture(name: &'static str, lexemes: Vec<&'static str>, seeds: Vec<&'static str>) -> Result<ZooLang, String> {
    let spec = crate::lang::fixture_spec(name)?;
    let has_scanner = spec.scanner_c.is_some();
    Ok(ZooLang { name, spec, lexemes, seeds, skippable: b" \t\r\n", has_scanner })
}

/// Fields on HIDDEN rules that stay in the tree: `entry` puts the field `item` on the hidden `_kv`, whose own production gives
/// its first child the field `key` (inner field wins, the unfielded child inherits `item`); `stmt` has two productions that
/// begin with the same hidden `_pair` under DIFFERENT fields, told apart only by the terminator that follows.
pub fn nestf() -> ZooLang {
    let g = G::new("nestf")
        .rule("source", rep(choice(vec![sym("entry"), sym("stmt")])))
        .rule("entry", seq(vec![s("<"), field("item", sym("_kv")), s(">")]))
        .rule("_kv", seq(vec![field("key", sym("word")), s(":"), choice(vec![sym("word"), sym("number")])]))
        .rule("stmt", choice(vec![seq(vec![field("a", sym("_pair")), s("!")]), seq(vec![field("b", sym("_pair")), s("?")])]))
        .rule("_pair", seq(vec![sym("word"), sym("word")]))
        .rule("word", pat("[a-z]+"))
        .rule("number", pat("[0-9]+"))
        .extras(vec![pat("\\s")]);
    ZooLang {
        name: "nestf", spec: spec(g, None),
        lexemes: vec!["a", "1", "<", ">", ":", "!", "?", " "],
        seeds: vec!["", "<a:1>", "<a:b>", "a b!", "a b?", "<k:v> p q! r s?", "a b? <x:2>", "<a:>", "a b", "a!", "<a:1> <b:c> d e!"],
        skippable: b" \t\r\n", has_scanner: false,
    }
}

/// A token that contains the EXTRAS character inside (C14 family (vii) as a zoo language, for the tiling oracle of C02): in the
/// state after `y` the blank is skipped in front of `inner` and consumed inside it.
pub fn innersp() -> ZooLang {
    let g = G::new("innersp")
        .rule("source", choice(vec![seq(vec![s("x"), sym("plain"), sym("stop")]), seq(vec![s("y"), sym("inner")])]))
        .rule("plain", pat("[ab]+"))
        .rule("stop", s("c"))
        .rule("inner", pat("(b[ ]*)*a?c"))
        .extras(vec![pat(" ")]);
    ZooLang {
        name: "innersp", spec: spec(g, None),
        lexemes: vec!["x", "y", "a", "b", "c", " "],
        seeds: vec!["", "xabc", "x ab c", "yc", "yb c", "y b  b ac", "yb b", "y", "xc"],
        skippable: b" ", has_scanner: false,
    }
}

pub fn core_zoo() -> Vec<ZooLang> {
    vec![arith(), stmts(), jsonish(), glr(), lexla(), indent(), pstring(), lookfar(), resv(), colm(), modal(), docol(), nlctx()]
}

pub fn by_name(name: &str) -> Option<ZooLang> {
    match name {
        "arith" => Some(arith()), "stmts" => Some(stmts()), "jsonish" => Some(jsonish()), "glr" => Some(glr()), "lexla" => Some(lexla()),
        "indent" => Some(indent()), "pstring" => Some(pstring()), "lookfar" => Some(lookfar()), "groups" => Some(groups()), "resv" => Some(resv()), "tmpl" => Some(tmpl()), "tagl" => Some(tagl()), "colm" => Some(colm()), "modal" => Some(modal()), "docol" => Some(docol()), "nlctx" => Some(nlctx()), "seam" => Some(seam()), "nestf" => Some(nestf()), "innersp" => Some(innersp()),
        _ => None,
    }
}
