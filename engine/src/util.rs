#![allow(dead_code)]
use serde_json::{json, Value};

pub fn bytes_json(b: &[u8]) -> Value {
    match std::str::from_utf8(b) {
        Ok(s) if !s.contains('\u{0}') => json!(s),
        _ => json!({"hex": b.iter().map(|x| format!("{:02x}", x)).collect::<String>()}),
    }
}
pub fn bytes_from_json(v: &Value) -> Vec<u8> {
    if let Some(s) = v.as_str() { return s.as_bytes().to_vec(); }
    let h = v["hex"].as_str().unwrap();
    (0..h.len() / 2).map(|i| u8::from_str_radix(&h[2 * i..2 * i + 2], 16).unwrap()).collect()
}

pub fn fnv(data: &[u8]) -> u64 {
    let mut h: u64 = 14695981039346656037;
    for &b in data { h ^= b as u64; h = h.wrapping_mul(1099511628211); }
    h
}
pub fn fnv_mix(h: u64, v: u64) -> u64 {
    let mut h = h;
    for i in 0..8 { h ^= (v >> (8 * i)) & 0xff; h = h.wrapping_mul(1099511628211); }
    h
}

/// All sequences over `alphabet` indexes of length exactly n, in lexicographic order.
pub fn for_each_seq(alpha: usize, n: usize, mut f: impl FnMut(&[usize])) {
    let mut idx = vec![0usize; n];
    loop {
        f(&idx);
        let mut i = n;
        loop {
            if i == 0 { return; }
            i -= 1;
            idx[i] += 1;
            if idx[i] < alpha { break; }
            idx[i] = 0;
        }
    }
}
