//! Reference derivation enumerator for grammar JSON (written from the grammar DSL documentation, independent of the
//! generator): all visible trees a grammar derives for a token sequence, by memoised span matching.
#![allow(dead_code)]
use serde_json::Value;
use std::cell::RefCell;
use std::collections::{HashMap, HashSet};
use std::rc::Rc;

#[derive(Clone, Debug, PartialEq, Eq, Hash)]
pub struct RNode {
    pub kind: String,
    pub named: bool,
    pub field: Option<String>,
    /// token index span [ts, te)
    pub ts: usize,
    pub te: usize,
    pub children: Vec<RNode>,
}

/// one way an expression matches a span: the visible nodes it yields and the summed dynamic precedence
#[derive(Clone, Debug, PartialEq, Eq, Hash)]
pub struct Alt { pub nodes: Vec<RNode>, pub dp: i32 }

#[derive(Clone, Debug)]
pub struct Tok { pub kind: String, pub start: usize, pub end: usize }

pub struct RefGrammar {
    pub rules: Vec<(String, Value)>,
    pub index: HashMap<String, usize>,
    pub inline: HashSet<String>,
    /// rules that are single tokens (their whole body is a terminal expression)
    pub token_rules: HashSet<String>,
    pub start: String,
}

fn is_terminal_expr(v: &Value) -> bool {
    match v["type"].as_str().unwrap_or("") {
        "STRING" | "PATTERN" | "TOKEN" | "IMMEDIATE_TOKEN" => true,
        "PREC" | "PREC_LEFT" | "PREC_RIGHT" | "PREC_DYNAMIC" => is_terminal_expr(&v["content"]),
        _ => false,
    }
}

impl RefGrammar {
    pub fn from_json(g: &Value) -> RefGrammar {
        let mut rules = vec![];
        let mut index = HashMap::new();
        for (k, v) in g["rules"].as_object().unwrap() { index.insert(k.clone(), rules.len()); rules.push((k.clone(), v.clone())); }
        let inline = g["inline"].as_array().map(|a| a.iter().filter_map(|x| x.as_str().map(|s| s.to_string())).collect()).unwrap_or_default();
        let token_rules = rules.iter().filter(|(_, v)| is_terminal_expr(v)).map(|(k, _)| k.clone()).collect();
        let start = rules[0].0.clone();
        RefGrammar { rules, index, inline, token_rules, start }
    }
    pub fn hidden(&self, name: &str) -> bool { name.starts_with('_') || self.inline.contains(name) }
}

pub struct Deriver<'a> {
    g: &'a RefGrammar,
    toks: &'a [Tok],
    memo: RefCell<HashMap<(usize, usize, usize), Rc<Vec<Alt>>>>,
    in_progress: RefCell<HashSet<(usize, usize, usize)>>,
    stack: RefCell<Vec<(usize, usize, usize)>>,
    tainted: RefCell<HashSet<(usize, usize, usize)>>,
    pub overflow: RefCell<bool>,
    cap: usize,
}

impl<'a> Deriver<'a> {
    pub fn new(g: &'a RefGrammar, toks: &'a [Tok]) -> Self {
        Deriver { g, toks, memo: RefCell::new(HashMap::new()), in_progress: RefCell::new(HashSet::new()), stack: RefCell::new(vec![]), tainted: RefCell::new(HashSet::new()), overflow: RefCell::new(false), cap: 3000 }
    }

    /// All distinct visible trees for the whole token sequence (root = start rule, always shown).
    pub fn roots(&self) -> Vec<(RNode, i32)> {
        let n = self.toks.len();
        let body = &self.g.rules[0].1;
        let alts = self.m(body, 0, n);
        let mut out: Vec<(RNode, i32)> = vec![];
        for a in alts.iter() {
            let node = RNode { kind: self.g.start.clone(), named: true, field: None, ts: 0, te: n, children: a.nodes.clone() };
            if !out.iter().any(|(x, d)| *x == node && *d == a.dp) { out.push((node, a.dp)); }
        }
        out
    }

    fn push(&self, v: &mut Vec<Alt>, a: Alt) {
        if v.len() >= self.cap { *self.overflow.borrow_mut() = true; return; }
        if !v.contains(&a) { v.push(a); }
    }

    fn m(&self, e: &Value, i: usize, j: usize) -> Rc<Vec<Alt>> {
        let key = (e as *const Value as usize, i, j);
        if let Some(r) = self.memo.borrow().get(&key) { return r.clone(); }
        if self.in_progress.borrow().contains(&key) {
            // a cyclic (same expression, same span) derivation: cut it. Everything on the stack above the first occurrence
            // of `key` was computed from this incomplete answer and must not be memoised.
            let st = self.stack.borrow();
            if let Some(p) = st.iter().position(|k| *k == key) { for k in &st[p + 1..] { self.tainted.borrow_mut().insert(*k); } }
            return Rc::new(vec![]);
        }
        self.in_progress.borrow_mut().insert(key);
        self.stack.borrow_mut().push(key);
        let r = Rc::new(self.compute(e, i, j));
        self.stack.borrow_mut().pop();
        self.in_progress.borrow_mut().remove(&key);
        if !self.tainted.borrow_mut().remove(&key) { self.memo.borrow_mut().insert(key, r.clone()); }
        r
    }

    fn leaf(&self, kind: &str, named: bool, i: usize) -> RNode { RNode { kind: kind.to_string(), named, field: None, ts: i, te: i + 1, children: vec![] } }

    fn compute(&self, e: &Value, i: usize, j: usize) -> Vec<Alt> {
        let mut out = vec![];
        match e["type"].as_str().unwrap_or("") {
            "BLANK" => { if i == j { out.push(Alt { nodes: vec![], dp: 0 }); } }
            "STRING" => {
                let s = e["value"].as_str().unwrap();
                if j == i + 1 && self.toks[i].kind == format!("\"{}\"", s) { out.push(Alt { nodes: vec![self.leaf(s, false, i)], dp: 0 }); }
            }
            "SYMBOL" => {
                let name = e["name"].as_str().unwrap();
                let Some(&ri) = self.g.index.get(name) else { return out };
                if self.g.token_rules.contains(name) {
                    if j == i + 1 && self.toks[i].kind == name {
                        if self.g.hidden(name) { out.push(Alt { nodes: vec![], dp: 0 }); } else { out.push(Alt { nodes: vec![self.leaf(name, true, i)], dp: 0 }); }
                    }
                } else {
                    let body = &self.g.rules[ri].1;
                    if i == j { return out; } // no rule other than the start rule may match the empty string
                    for a in self.m(body, i, j).iter() {
                        if self.g.hidden(name) { self.push(&mut out, a.clone()); }
                        else { self.push(&mut out, Alt { nodes: vec![RNode { kind: name.to_string(), named: true, field: None, ts: i, te: j, children: a.nodes.clone() }], dp: a.dp }); }
                    }
                }
            }
            "SEQ" => {
                let members = e["members"].as_array().unwrap();
                let mut cur: Vec<(usize, Alt)> = vec![(i, Alt { nodes: vec![], dp: 0 })];
                for (mi, mexpr) in members.iter().enumerate() {
                    let last = mi + 1 == members.len();
                    let mut next: Vec<(usize, Alt)> = vec![];
                    for (pos, acc) in &cur {
                        let ends: Vec<usize> = if last { vec![j] } else { (*pos..=j).collect() };
                        for k in ends {
                            for a in self.m(mexpr, *pos, k).iter() {
                                let mut nodes = acc.nodes.clone();
                                nodes.extend(a.nodes.iter().cloned());
                                let cand = (k, Alt { nodes, dp: acc.dp + a.dp });
                                if next.len() < self.cap * 4 && !next.contains(&cand) { next.push(cand); } else if next.len() >= self.cap * 4 { *self.overflow.borrow_mut() = true; }
                            }
                        }
                    }
                    cur = next;
                    if cur.is_empty() { break; }
                }
                for (pos, a) in cur { if pos == j { self.push(&mut out, a); } }
            }
            "CHOICE" => { for mexpr in e["members"].as_array().unwrap() { for a in self.m(mexpr, i, j).iter() { self.push(&mut out, a.clone()); } } }
            "REPEAT" | "REPEAT1" => {
                let c = &e["content"];
                if e["type"] == "REPEAT" && i == j { out.push(Alt { nodes: vec![], dp: 0 }); }
                // one or more non-empty pieces partitioning [i, j)
                let mut reach: Vec<Vec<Alt>> = vec![vec![]; j + 1];
                reach[i].push(Alt { nodes: vec![], dp: 0 });
                for p in i..j {
                    if reach[p].is_empty() { continue; }
                    for k in p + 1..=j {
                        let piece = self.m(c, p, k);
                        if piece.is_empty() { continue; }
                        let prefixes = reach[p].clone();
                        for acc in &prefixes { for a in piece.iter() {
                            let mut nodes = acc.nodes.clone();
                            nodes.extend(a.nodes.iter().cloned());
                            let cand = Alt { nodes, dp: acc.dp + a.dp };
                            if reach[k].len() < self.cap { if !reach[k].contains(&cand) { reach[k].push(cand); } } else { *self.overflow.borrow_mut() = true; }
                        } }
                    }
                }
                if j > i { for a in reach[j].clone() { self.push(&mut out, a); } }
            }
            "FIELD" => {
                let name = e["name"].as_str().unwrap();
                for a in self.m(&e["content"], i, j).iter() {
                    let mut a = a.clone();
                    for n in a.nodes.iter_mut() { if n.field.is_none() { n.field = Some(name.to_string()); } }
                    self.push(&mut out, a);
                }
            }
            "ALIAS" => {
                let value = e["value"].as_str().unwrap();
                let named = e["named"].as_bool().unwrap_or(false);
                let c = &e["content"];
                match c["type"].as_str().unwrap_or("") {
                    "SYMBOL" => {
                        let name = c["name"].as_str().unwrap();
                        if self.g.token_rules.contains(name) {
                            if j == i + 1 && self.toks[i].kind == name { out.push(Alt { nodes: vec![self.leaf(value, named, i)], dp: 0 }); }
                        } else if let Some(&ri) = self.g.index.get(name) {
                            if i < j {
                                for a in self.m(&self.g.rules[ri].1, i, j).iter() {
                                    self.push(&mut out, Alt { nodes: vec![RNode { kind: value.to_string(), named, field: None, ts: i, te: j, children: a.nodes.clone() }], dp: a.dp });
                                }
                            }
                        }
                    }
                    "STRING" => {
                        let s = c["value"].as_str().unwrap();
                        if j == i + 1 && self.toks[i].kind == format!("\"{}\"", s) { out.push(Alt { nodes: vec![self.leaf(value, named, i)], dp: 0 }); }
                    }
                    _ => { for a in self.m(c, i, j).iter() { self.push(&mut out, a.clone()); } }
                }
            }
            "PREC" | "PREC_LEFT" | "PREC_RIGHT" | "RESERVED" => { for a in self.m(&e["content"], i, j).iter() { self.push(&mut out, a.clone()); } }
            "PREC_DYNAMIC" => {
                let n = e["value"].as_i64().unwrap_or(0) as i32;
                for a in self.m(&e["content"], i, j).iter() { self.push(&mut out, Alt { nodes: a.nodes.clone(), dp: a.dp + n }); }
            }
            _ => {}
        }
        out
    }
}

/// Compare a reference node with the explicit tree of the real parser. `toks` gives byte positions.
pub fn same_as_xtree(r: &RNode, toks: &[Tok], xt: &crate::xtree::XTree, i: usize, lang: &tree_sitter::Language) -> Result<(), String> {
    let x = &xt.nodes[i];
    let kind = lang.node_kind_for_id(x.kind_id).unwrap_or("?");
    let (rs, re) = if r.te > r.ts { (toks[r.ts].start, toks[r.te - 1].end) } else { (x.start, x.end) };
    let xf = if x.field_id != 0 { lang.field_name_for_id(x.field_id) } else { None };
    if kind != r.kind || x.named != r.named || xf != r.field.as_deref() || x.start != rs || x.end != re || x.children.len() != r.children.len() {
        return Err(format!("node #{}: parser has {} named={} field={:?} {}..{} with {} children; the grammar derives {} named={} field={:?} {}..{} with {} children", i, kind, x.named, xf, x.start, x.end, x.children.len(), r.kind, r.named, r.field, rs, re, r.children.len()));
    }
    for (k, c) in r.children.iter().enumerate() { same_as_xtree(c, toks, xt, x.children[k], lang)?; }
    Ok(())
}

pub fn render(r: &RNode) -> String {
    let mut s = String::new();
    if let Some(f) = &r.field { s.push_str(f); s.push_str(": "); }
    if !r.named { s.push_str(&format!("{:?}", r.kind)); return s; }
    s.push('('); s.push_str(&r.kind);
    for c in &r.children { s.push(' '); s.push_str(&render(c)); }
    s.push(')');
    s
}
