//! Grammar families enumerated completely (not sampled): G1 conflict-free CFGs, G2 operator tables, G3 GLR grammars.
#![allow(dead_code)]
use crate::gram::*;
use serde_json::{json, Value};

pub struct FamGrammar {
    pub id: String,
    pub g: G,
    /// token alphabet: (text, token kind as used by the reference deriver)
    pub alphabet: Vec<(String, String)>,
    pub has_ws_extras: bool,
    pub kind: &'static str,
    pub op_table: Option<OpTable>,
}

fn lit(s: &str) -> (String, String) { (s.to_string(), format!("\"{}\"", s)) }

fn shape(k: usize, y: Value, is_top: bool) -> Option<Value> {
    let (a, b, c) = (s("a"), s("b"), s("c"));
    Some(match k {
        0 => seq(vec![a, y]),
        1 => seq(vec![y, a]),
        2 => seq(vec![opt(a), y]),
        3 => if is_top { rep(y) } else { rep1(y) },
        4 => seq(vec![rep1(a), y]),
        5 => choice(vec![seq(vec![a, b]), seq(vec![y, c])]),
        6 => seq(vec![a, opt(y), c]),
        7 => seq(vec![field("x", y), b]),
        8 => seq(vec![alias(y, "renamed", true), c]),
        9 => seq(vec![y.clone(), y]),
        _ => return None,
    })
}

fn low_shape(k: usize) -> Option<Value> {
    let (a, b, c) = (s("a"), s("b"), s("c"));
    Some(match k {
        0 => seq(vec![a, b]),
        1 => seq(vec![opt(a), b]),
        2 => seq(vec![rep1(a), b]),
        3 => choice(vec![a, seq(vec![b, c])]),
        _ => return None,
    })
}

/// G1: top -> shape(mid), mid -> shape(low), low -> terminal shape; switches: mid hidden, low hidden, mid inline, whitespace extras.
/// Ordered simplest first (switches all off first).
pub fn g1() -> Vec<FamGrammar> {
    let mut out = vec![];
    for sw in 0..16usize {
        let (mid_hidden, low_hidden, mid_inline, ws) = (sw & 1 != 0, sw & 2 != 0, sw & 4 != 0, sw & 8 != 0);
        for lk in 0..4 { for mk in 0..10 { for tk in 0..10 {
            if mid_inline && (tk == 8) { continue; } // alias of an inlined rule is outside the family
            let mid_name = if mid_hidden { "_mid" } else { "mid" };
            let low_name = if low_hidden { "_low" } else { "low" };
            let mut g = G::new(&format!("g1_{}_{}_{}_{}", sw, lk, mk, tk))
                .rule("top", shape(tk, sym(mid_name), true).unwrap())
                .rule(mid_name, shape(mk, sym(low_name), false).unwrap())
                .rule(low_name, low_shape(lk).unwrap());
            if mid_inline { g = g.inline(mid_name); }
            g = g.extras(if ws { vec![pat("\\s")] } else { vec![] });
            out.push(FamGrammar { id: g.name.clone(), g, alphabet: vec![lit("a"), lit("b"), lit("c")], has_ws_extras: ws, kind: "G1", op_table: None });
        } } }
    }
    out
}

#[derive(Clone, Debug)]
pub struct OpTable {
    /// binary operators: (symbol, level, right_assoc)
    pub binary: Vec<(String, i32, bool)>,
    pub prefix: Option<(String, i32)>,
    pub postfix: Option<(String, i32)>,
}

/// G2: e -> x | e op e | - e | e !   with every assignment of levels {1,2,3} x {left,right} to three binary operators and
/// the listed unary options.
pub fn g2() -> Vec<FamGrammar> {
    let mut out = vec![];
    let unary_opts: Vec<(Option<i32>, Option<i32>)> = vec![(None, None), (Some(0), None), (Some(2), None), (Some(4), None), (None, Some(0)), (None, Some(4)), (Some(4), Some(0)), (Some(0), Some(4))];
    for (ui, (pre, post)) in unary_opts.iter().enumerate() {
        for code in 0..216usize {
            let mut c = code;
            let mut bin = vec![];
            for op in ["+", "*", "^"] { let v = c % 6; c /= 6; bin.push((op.to_string(), (v % 3) as i32 + 1, v / 3 == 1)); }
            let e = || sym("e");
            let mut alts = vec![s("x")];
            for (op, lvl, right) in &bin {
                let body = seq(vec![e(), s(op), e()]);
                alts.push(if *right { prec_right(*lvl, body) } else { prec_left(*lvl, body) });
            }
            if let Some(l) = pre { alts.push(prec(*l, seq(vec![s("-"), e()]))); }
            if let Some(l) = post { alts.push(prec(*l, seq(vec![e(), s("!")]))); }
            let g = G::new(&format!("g2_{}_{}", ui, code)).rule("top", e()).rule("e", choice(alts));
            let mut alphabet = vec![lit("x"), lit("+"), lit("*"), lit("^")];
            if pre.is_some() { alphabet.push(lit("-")); }
            if post.is_some() { alphabet.push(lit("!")); }
            out.push(FamGrammar { id: g.name.clone(), g, alphabet: alphabet.clone(), has_ws_extras: true, kind: "G2",
                op_table: Some(OpTable { binary: bin.clone(), prefix: pre.map(|l| ("-".to_string(), l)), postfix: post.map(|l| ("!".to_string(), l)) }) });
            // the same table with NAMED precedences (`precedences: [["p3","p2","p1"]]`, highest first) instead of numbers
            if ui == 0 {
                let mut alts = vec![s("x")];
                for (op, lvl, right) in &bin {
                    let body = seq(vec![e(), s(op), e()]);
                    let name = format!("p{}", lvl);
                    alts.push(json!({"type": if *right { "PREC_RIGHT" } else { "PREC_LEFT" }, "value": name, "content": body}));
                }
                let g = G::new(&format!("g2n_{}", code)).precedence_order(&["p3", "p2", "p1"]).rule("top", e()).rule("e", choice(alts));
                out.push(FamGrammar { id: g.name.clone(), g, alphabet: vec![lit("x"), lit("+"), lit("*"), lit("^")], has_ws_extras: true, kind: "G2",
                    op_table: Some(OpTable { binary: bin.clone(), prefix: None, postfix: None }) });
            }
            // the same table with every binary operator reached through a hidden non-terminal (`_op_k -> op | '&k'`): the
            // production that is shifted then continues with a non-terminal, not a token, after the shared operand
            if ui == 0 || ui == 6 {
                let mut alts = vec![s("x")];
                let mut g = G::new(&format!("g2h_{}_{}", ui, code)).rule("top", e());
                let mut oprules = vec![];
                for (k, (op, lvl, right)) in bin.iter().enumerate() {
                    let body = seq(vec![e(), sym(&format!("_op{}", k)), e()]);
                    alts.push(if *right { prec_right(*lvl, body) } else { prec_left(*lvl, body) });
                    oprules.push((format!("_op{}", k), choice(vec![s(op), s(&format!("&{}", k))])));
                }
                if let Some(l) = pre { alts.push(prec(*l, seq(vec![s("-"), e()]))); }
                if let Some(l) = post { alts.push(prec(*l, seq(vec![e(), s("!")]))); }
                g = g.rule("e", choice(alts));
                for (n, r) in oprules { g = g.rule(&n, r); }
                out.push(FamGrammar { id: g.name.clone(), g, alphabet, has_ws_extras: true, kind: "G2",
                    op_table: Some(OpTable { binary: bin, prefix: pre.map(|l| ("-".to_string(), l)), postfix: post.map(|l| ("!".to_string(), l)) }) });
            }
        }
    }
    out
}

/// G3: hand-written grammars with declared conflicts and dynamic precedence in {-1, 0, 1}.
pub fn g3() -> Vec<FamGrammar> {
    let mut out = vec![];
    for (vi, (decl_dp, expr_dp)) in [(1, 0), (0, 1), (-1, 0), (0, -1), (1, -1)].iter().enumerate() {
        let g = G::new(&format!("g3_decl_{}", vi))
            .conflict(&["type_name", "_expr"])
            .rule("program", rep(sym("_stmt")))
            .rule("_stmt", choice(vec![sym("decl"), sym("expr_stmt")]))
            .rule("decl", prec_dyn(*decl_dp, seq(vec![field("type", sym("type_name")), field("declarator", sym("_declarator")), s(";")])))
            .rule("type_name", sym("identifier"))
            .rule("_declarator", choice(vec![sym("identifier"), sym("ptr_decl")]))
            .rule("ptr_decl", seq(vec![s("*"), sym("_declarator")]))
            .rule("expr_stmt", prec_dyn(*expr_dp, seq(vec![sym("_expr"), s(";")])))
            .rule("_expr", choice(vec![sym("identifier"), sym("mul"), sym("number")]))
            .rule("mul", prec_left(1, seq(vec![sym("_expr"), s("*"), sym("_expr")])))
            .rule("identifier", pat("[a-z]+"))
            .rule("number", pat("[0-9]+"));
        let alphabet = vec![("a".to_string(), "identifier".to_string()), ("b".to_string(), "identifier".to_string()), ("1".to_string(), "number".to_string()), lit("*"), lit(";")];
        out.push(FamGrammar { id: g.name.clone(), g, alphabet, has_ws_extras: true, kind: "G3", op_table: None });
    }
    // two alternatives of ONE rule that differ only in their dynamic precedence (same length, same shape): the parse items
    // of the two productions must stay distinct
    for (vi, (dv, dt)) in [(0, 1), (1, 0), (-1, 0), (0, -1)].iter().enumerate() {
        let g = G::new(&format!("g3_alt_{}", vi))
            .conflict(&["as_value", "as_type"])
            .rule("program", rep(sym("statement")))
            .rule("statement", choice(vec![prec_dyn(*dv, seq(vec![sym("as_value"), s(";")])), prec_dyn(*dt, seq(vec![sym("as_type"), s(";")]))]))
            .rule("as_value", sym("identifier"))
            .rule("as_type", sym("identifier"))
            .rule("identifier", pat("[a-z]+"));
        let alphabet = vec![("a".to_string(), "identifier".to_string()), ("b".to_string(), "identifier".to_string()), lit(";")];
        out.push(FamGrammar { id: g.name.clone(), g, alphabet, has_ws_extras: true, kind: "G3", op_table: None });
    }
    // the two readings differ by their own dynamic precedence and sit inside a production that carries a dynamic precedence
    // of its own (positive, negative, larger than the difference): the enclosing one must not tip the choice
    for (vi, (outer, d1, d2)) in [(2, 0, 1), (1, 0, 1), (-2, 1, 0), (2, 1, 0), (-1, 1, 0), (0, 0, 1), (3, 1, 2), (-3, 2, 1)].iter().enumerate() {
        let g = G::new(&format!("g3_outer_{}", vi))
            .conflict(&["first", "second"])
            .rule("program", rep(sym("statement")))
            .rule("statement", prec_dyn(*outer, seq(vec![sym("_item"), s(";")])))
            .rule("_item", choice(vec![sym("first"), sym("second")]))
            .rule("first", prec_dyn(*d1, seq(vec![sym("identifier"), sym("identifier")])))
            .rule("second", prec_dyn(*d2, seq(vec![sym("identifier"), sym("identifier")])))
            .rule("identifier", pat("[a-z]+"));
        let alphabet = vec![("a".to_string(), "identifier".to_string()), ("b".to_string(), "identifier".to_string()), lit(";")];
        out.push(FamGrammar { id: g.name.clone(), g, alphabet, has_ws_extras: true, kind: "G3", op_table: None });
    }
    // ambiguous-looking call vs parenthesised declarator, resolved by dynamic precedence
    for (vi, dp) in [1, -1].iter().enumerate() {
        let g = G::new(&format!("g3_call_{}", vi))
            .conflict(&["call", "cast"]).conflict(&["_expr", "cast"])
            .rule("program", rep(sym("_stmt")))
            .rule("_stmt", seq(vec![sym("_expr"), s(";")]))
            .rule("_expr", choice(vec![sym("identifier"), sym("call"), sym("cast"), sym("paren")]))
            .rule("paren", seq(vec![s("("), sym("_expr"), s(")")]))
            .rule("call", prec_dyn(*dp, seq(vec![field("fn", sym("_expr")), s("("), field("arg", sym("_expr")), s(")")])))
            .rule("cast", prec_right(0, seq(vec![s("("), field("type", sym("identifier")), s(")"), field("value", sym("_expr"))])))
            .rule("identifier", pat("[a-z]+"));
        let alphabet = vec![("a".to_string(), "identifier".to_string()), ("b".to_string(), "identifier".to_string()), lit("("), lit(")"), lit(";")];
        out.push(FamGrammar { id: g.name.clone(), g, alphabet, has_ws_extras: true, kind: "G3", op_table: None });
    }
    out
}

/// G4: grammars whose canonical LR(1) automaton has states with equal cores but different reductions per look-ahead
/// (the classic LR(1)-but-not-LALR(1) shape and variants): state merging must keep them apart.
pub fn g4() -> Vec<FamGrammar> {
    let mut out = vec![];
    let bodies: Vec<(&str, Value, Value)> = vec![
        ("cc", seq(vec![s("c"), s("c")]), seq(vec![s("c"), s("c")])),
        ("c_optc", seq(vec![s("c"), opt(s("c"))]), seq(vec![s("c"), opt(s("c"))])),
        ("rep", rep1(s("c")), rep1(s("c"))),
    ];
    for (bi, (bn, ba, bb)) in bodies.into_iter().enumerate() {
        for hidden in [false, true] {
            let (an, bnm) = if hidden { ("_ra", "_rb") } else { ("ra", "rb") };
            // with hidden rules the two interpretations must still be told apart: wrap them in fields
            let a = || field("fa", sym(an));
            let b = || field("fb", sym(bnm));
            let g = G::new(&format!("g4_{}_{}_{}", bi, bn, hidden as u8))
                .rule("top", choice(vec![
                    seq(vec![s("a"), a(), s("d")]), seq(vec![s("b"), b(), s("d")]),
                    seq(vec![s("a"), b(), s("e")]), seq(vec![s("b"), a(), s("e")]),
                ]))
                .rule(an, ba.clone())
                .rule(bnm, bb.clone());
            out.push(FamGrammar { id: g.name.clone(), g, alphabet: vec![lit("a"), lit("b"), lit("c"), lit("d"), lit("e")], has_ws_extras: true, kind: "G4", op_table: None });
        }
    }
    // three states with one core that conflict pairwise (a 3x3 latin square of prefixes and look-aheads): a partition of the
    // equal-core states has to be refined more than once
    // (bodies of two tokens: a rule that is a single string would be extracted as a token of its own)
    for (bi, body) in [seq(vec![s("c"), s("c")]), seq(vec![s("c"), opt(s("c"))])].into_iter().enumerate() {
        let names = ["rx", "ry", "rz"];
        let prefixes = ["a", "b", "g"];
        let looks = ["d", "e", "f"];
        let mut alts = vec![];
        for (pi, p) in prefixes.iter().enumerate() { for (li, l) in looks.iter().enumerate() {
            alts.push(seq(vec![s(p), field(["fx", "fy", "fz"][(pi + li) % 3], sym(names[(pi + li) % 3])), s(l)]));
        } }
        let mut g = G::new(&format!("g4_latin3_{}", bi)).rule("top", choice(alts));
        for n in names { g = g.rule(n, body.clone()); }
        out.push(FamGrammar { id: g.name.clone(), g, alphabet: vec![lit("a"), lit("b"), lit("g"), lit("c"), lit("d"), lit("e"), lit("f")], has_ws_extras: true, kind: "G4", op_table: None });
    }
    out
}

/// G8: equal-core states behind a declared conflict. The latin square of G4 (`a ra d | b rb d | a rb e | b ra e`) where the
/// two rules share a prefix of 2 or 3 tokens after which `x` is BOTH shifted (into E / F, whose reduction depends on the
/// first token and the look-ahead, LR(1) but not LALR(1)) and the look-ahead of a reduction (`W -> prefix`, declared
/// conflict): the table entry on `x` holds two actions, and the states before it may only be merged if those after it are.
pub fn g8() -> Vec<FamGrammar> {
    let mut out = vec![];
    for plen in [2usize] { for ebody in 0..2usize { for wtail in 0..2usize { for order in 0..2usize {
        let prefix: Vec<Value> = ["u", "v", "u"][..plen].iter().map(|t| s(t)).collect();
        let with = |tail: Vec<Value>| { let mut v = prefix.clone(); v.extend(tail); seq(v) };
        let eb = || if ebody == 0 { seq(vec![s("x"), s("y")]) } else { seq(vec![s("x"), opt(s("x")), s("y")]) };
        let wt = if wtail == 0 { vec![sym("w"), s("x"), s("z")] } else { vec![sym("w"), s("x"), s("y"), s("z")] };
        let ra = if order == 0 { choice(vec![with(vec![sym("ee")]), seq(wt.clone())]) } else { choice(vec![seq(wt.clone()), with(vec![sym("ee")])]) };
        let g = G::new(&format!("g8_{}{}{}{}", plen, ebody, wtail, order))
            .conflict(&["ra", "rb", "w"])
            .rule("top", choice(vec![
                seq(vec![s("a"), field("fa", sym("ra")), s("d")]), seq(vec![s("b"), field("fb", sym("rb")), s("d")]),
                seq(vec![s("a"), field("fb", sym("rb")), s("e")]), seq(vec![s("b"), field("fa", sym("ra")), s("e")]),
            ]))
            .rule("ra", ra)
            .rule("rb", with(vec![sym("ff")]))
            .rule("ee", eb())
            .rule("ff", eb())
            .rule("w", seq(prefix.clone()));
        out.push(FamGrammar { id: g.name.clone(), g, alphabet: vec![lit("a"), lit("b"), lit("u"), lit("v"), lit("x"), lit("y"), lit("z"), lit("d"), lit("e")], has_ws_extras: true, kind: "G8", op_table: None });
    } } } }
    out
}

/// G10: alias names that collide with rule names. `foo` and `baz` are rules; three statements use `foo`, `baz`, `foo` under an
/// alias drawn from {none, "foo", "baz", "bar"} each, a fourth uses `baz` plain. Among the 64 grammars: a rule that only ever
/// appears under one alias (which then becomes its default alias) next to another rule aliased to the first rule's own name.
pub fn g10() -> Vec<FamGrammar> {
    let mut out = vec![];
    let names = ["", "foo", "baz", "bar"];
    for n1 in 0..4usize { for n2 in 0..4usize { for n3 in 0..4usize {
        let use_ = |rule: &str, n: usize| if n == 0 || names[n] == rule { sym(rule) } else { alias(sym(rule), names[n], true) };
        let g = G::new(&format!("g10_{}{}{}", n1, n2, n3))
            .rule("top", rep(choice(vec![sym("a_stmt"), sym("b_stmt"), sym("c_stmt"), sym("d_stmt")])))
            .rule("a_stmt", seq(vec![s("a"), use_("foo", n1)]))
            .rule("b_stmt", seq(vec![s("b"), use_("baz", n2)]))
            .rule("c_stmt", seq(vec![s("c"), use_("foo", n3)]))
            .rule("d_stmt", seq(vec![s("d"), sym("baz")]))
            .rule("foo", seq(vec![s("x"), s("x")]))
            .rule("baz", seq(vec![s("y"), s("y")]))
            .extras(vec![pat("\\s")]);
        out.push(FamGrammar { id: g.name.clone(), g, alphabet: vec![lit("a"), lit("b"), lit("c"), lit("d"), lit("x"), lit("y")], has_ws_extras: true, kind: "G10", op_table: None });
    } } }
    out
}

/// G7: alias tables. Three productions `p1: '1' x x x`, `p2: '2' x x`, `p3: '3' x x x x`, each with at most one child carrying
/// a per-production alias (position none/0/1/2), the alias named or anonymous, the rules declared in either order; `x`
/// also occurs without alias (so the alias is not the symbol's default alias and lives in the per-production alias rows).
/// Every layout of short and long alias rows next to each other occurs.
pub fn g7() -> Vec<FamGrammar> {
    let mut out = vec![];
    let x = || sym("x");
    for named in [true, false] { for rev in [false, true] {
        for a1 in 0..4usize { for a2 in 0..3usize { for a3 in 0..4usize {
            if a1 == 0 && a2 == 0 && a3 == 0 && (rev || !named) { continue; }
            let body = |lit_: &str, n: usize, a: usize, al: &str| -> Value {
                let mut v = vec![s(lit_)];
                for k in 0..n { v.push(if a == k + 1 { alias(x(), al, named) } else { x() }); }
                seq(v)
            };
            let rules: Vec<(&str, Value)> = vec![("p1", body("1", 3, a1, "ax")), ("p2", body("2", 2, a2, "ay")), ("p3", body("3", 4, a3, "az")), ("plain", seq(vec![s("0"), x()]))];
            let mut g = G::new(&format!("g7_{}{}_{}{}{}", named as u8, rev as u8, a1, a2, a3))
                .rule("top", rep(choice(vec![sym("p1"), sym("p2"), sym("p3"), sym("plain")])));
            let order: Vec<usize> = if rev { vec![3, 2, 1, 0] } else { vec![0, 1, 2, 3] };
            for &k in &order { g = g.rule(rules[k].0, rules[k].1.clone()); }
            g = g.rule("x", pat("x")).extras(vec![pat("\\s")]);
            out.push(FamGrammar { id: g.name.clone(), g, alphabet: vec![lit("0"), lit("1"), lit("2"), lit("3"), ("x".to_string(), "x".to_string())], has_ws_extras: true, kind: "G7", op_table: None });
        } } }
    } }
    out
}

/// Strings left out of a family's box: for G8 (sentences of six tokens over nine) the strings of more than three tokens that
/// do not begin with one of the two tokens every sentence begins with - they are erroneous from the first token on, and the
/// shorter ones already cover "wrong first token".
pub fn skip_string(f: &FamGrammar, ix: &[usize]) -> bool { f.kind == "G8" && ix.len() > 3 && ix[0] > 1 }

/// All token sequences over the alphabet of length <= n, shortest first.
pub fn token_strings(alpha: usize, n: usize) -> Vec<Vec<usize>> {
    let mut out = vec![vec![]];
    for len in 1..=n { crate::util::for_each_seq(alpha, len, |ix| out.push(ix.to_vec())); }
    out
}
