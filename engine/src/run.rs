//! Sharded runner: master spawns worker processes, merges their results, writes evidence, replays and verdict lines.
#![allow(dead_code)]
use serde_json::{json, Map, Value};
use std::collections::BTreeMap;
use std::io::Write;
use std::path::PathBuf;
use std::sync::atomic::{AtomicU64, AtomicUsize, Ordering};

pub const NSHARDS_DEFAULT: usize = 16;

#[derive(Clone, Debug)]
pub struct Ctx {
    pub id: String,
    pub tier: String,
    pub seed: u64,
    pub shard: usize,
    pub nshards: usize,
    pub deadline: std::time::Instant,
}
impl Ctx {
    pub fn quick(&self) -> bool { self.tier == "quick" || self.tier == "mini" }
    pub fn mini(&self) -> bool { self.tier == "mini" }
    pub fn mine(&self, idx: usize) -> bool { idx % self.nshards == self.shard }
    pub fn out_of_time(&self) -> bool { std::time::Instant::now() >= self.deadline }
}

#[derive(Clone, Debug)]
pub struct Violation { pub fingerprint: String, pub what: String, pub case: Value }

#[derive(Default, Debug)]
pub struct ShardResult {
    pub states: u64,
    pub transitions: u64,
    pub evaluations: u64,
    pub nontrivial: u64,
    pub counters: BTreeMap<String, u64>,
    pub samples: Vec<Value>,
    pub violations: Vec<Violation>,
    pub caps: Vec<String>,
    pub outcomes: std::collections::BTreeSet<u64>,
    pub max_violations: usize,
    /// fingerprints listed as known findings for this property: counted separately, never exhaust the violation budget
    pub known_fps: std::collections::BTreeSet<String>,
}
impl ShardResult {
    pub fn new() -> Self { ShardResult { max_violations: 20, ..Default::default() } }
    pub fn count(&mut self, k: &str, n: u64) { *self.counters.entry(k.to_string()).or_insert(0) += n; }
    pub fn sample(&mut self, v: Value) { if self.samples.len() < 4 { self.samples.push(v); } }
    pub fn violation(&mut self, fingerprint: &str, what: String, case: Value) {
        if self.known_fps.contains(fingerprint) {
            self.count("known_finding_hits", 1);
            if !self.violations.iter().any(|v| v.fingerprint == fingerprint) {
                self.violations.push(Violation { fingerprint: fingerprint.to_string(), what, case });
            }
            return;
        }
        self.count("violations_total", 1);
        // keep at most a few per fingerprint, simplest first (callers enumerate simplest-first)
        let same = self.violations.iter().filter(|v| v.fingerprint == fingerprint).count();
        if same < 3 && self.violations.len() < self.max_violations {
            self.violations.push(Violation { fingerprint: fingerprint.to_string(), what, case });
        }
    }
    pub fn too_many(&self) -> bool { self.counters.get("violations_total").copied().unwrap_or(0) > 200 }
    pub fn outcome(&mut self, h: u64) { if self.outcomes.len() < 100000 { self.outcomes.insert(h); } }
    pub fn to_json(&self) -> Value {
        json!({
            "states": self.states, "transitions": self.transitions, "evaluations": self.evaluations, "nontrivial": self.nontrivial,
            "counters": self.counters, "samples": self.samples, "caps": self.caps,
            "outcomes": self.outcomes.iter().take(20000).collect::<Vec<_>>(),
            "violations": self.violations.iter().map(|v| json!({"fingerprint": v.fingerprint, "what": v.what, "case": v.case})).collect::<Vec<_>>(),
        })
    }
}

// ---- crash capture -----------------------------------------------------------------------
const CASE_CAP: usize = 1 << 20;
static mut CASE_BUF: [u8; CASE_CAP] = [0; CASE_CAP];
static CASE_LEN: AtomicUsize = AtomicUsize::new(0);
static CASE_SEQ: AtomicU64 = AtomicU64::new(0);
static mut CRASH_FD: i32 = -1;

struct BufW { pos: usize }
impl std::fmt::Write for BufW {
    fn write_str(&mut self, s: &str) -> std::fmt::Result {
        let b = s.as_bytes();
        unsafe {
            let cap = CASE_CAP;
            let n = b.len().min(cap - self.pos);
            let dst = std::ptr::addr_of_mut!(CASE_BUF) as *mut u8;
            std::ptr::copy_nonoverlapping(b.as_ptr(), dst.add(self.pos), n);
            self.pos += n;
        }
        Ok(())
    }
}

/// Record the case about to be executed (JSON text), so that a crash or hang yields a replayable case.
pub fn set_case(args: std::fmt::Arguments) {
    let mut w = BufW { pos: 0 };
    let _ = std::fmt::write(&mut w, args);
    CASE_LEN.store(w.pos, Ordering::SeqCst);
    CASE_SEQ.fetch_add(1, Ordering::SeqCst);
    // under valgrind the process is ended from outside on the first error: keep the case on disk at all times
    if EAGER_CASE.load(Ordering::Relaxed) {
        unsafe {
            if CRASH_FD >= 0 {
                libc::ftruncate(CRASH_FD, 0);
                libc::pwrite(CRASH_FD, b"CASE\n".as_ptr() as *const _, 5, 0);
                libc::pwrite(CRASH_FD, std::ptr::addr_of!(CASE_BUF) as *const _, w.pos, 5);
            }
        }
    }
}
static EAGER_CASE: std::sync::atomic::AtomicBool = std::sync::atomic::AtomicBool::new(false);
/// progress heartbeat for loops that run many subject calls under one recorded case
pub fn tick() { CASE_SEQ.fetch_add(1, Ordering::Relaxed); }
#[macro_export]
macro_rules! case { ($($arg:tt)*) => { $crate::run::set_case(format_args!($($arg)*)) } }

extern "C" fn on_signal(sig: i32) {
    unsafe {
        if CRASH_FD >= 0 {
            let hdr: &[u8] = match sig {
                libc::SIGSEGV => b"SIGSEGV\n", libc::SIGABRT => b"SIGABRT\n", libc::SIGBUS => b"SIGBUS\n",
                libc::SIGFPE => b"SIGFPE\n", libc::SIGILL => b"SIGILL\n", _ => b"SIGNAL\n",
            };
            libc::write(CRASH_FD, hdr.as_ptr() as *const _, hdr.len());
            let n = CASE_LEN.load(Ordering::SeqCst);
            libc::write(CRASH_FD, std::ptr::addr_of!(CASE_BUF) as *const _, n);
            libc::fsync(CRASH_FD);
        }
        libc::_exit(99);
    }
}

fn write_crash_and_exit(kind: &str, code: i32) -> ! {
    crate::checks::c19::kill_all_probes();
    unsafe {
        if CRASH_FD >= 0 {
            let h = format!("{}\n", kind);
            libc::write(CRASH_FD, h.as_ptr() as *const _, h.len());
            let n = CASE_LEN.load(Ordering::SeqCst);
            libc::write(CRASH_FD, std::ptr::addr_of!(CASE_BUF) as *const _, n);
        }
        libc::_exit(code);
    }
}

pub fn install_crash_capture(path: &std::path::Path, case_timeout_s: u64) {
    if std::env::var("VF_EAGER_CASE").is_ok() { EAGER_CASE.store(true, Ordering::Relaxed); }
    let case_timeout_s = if std::env::var("VF_EAGER_CASE").is_ok() { case_timeout_s * 30 } else { case_timeout_s };
    unsafe {
        let c = std::ffi::CString::new(path.to_str().unwrap()).unwrap();
        CRASH_FD = libc::open(c.as_ptr(), libc::O_WRONLY | libc::O_CREAT | libc::O_TRUNC, 0o644);
        // alternate stack so that stack overflows are captured too
        let sz = 1 << 16;
        let stk = libc::mmap(std::ptr::null_mut(), sz, libc::PROT_READ | libc::PROT_WRITE, libc::MAP_PRIVATE | libc::MAP_ANONYMOUS, -1, 0);
        let ss = libc::stack_t { ss_sp: stk, ss_flags: 0, ss_size: sz };
        libc::sigaltstack(&ss, std::ptr::null_mut());
        for sig in [libc::SIGSEGV, libc::SIGABRT, libc::SIGBUS, libc::SIGFPE, libc::SIGILL] {
            let mut sa: libc::sigaction = std::mem::zeroed();
            sa.sa_sigaction = on_signal as usize;
            sa.sa_flags = libc::SA_ONSTACK;
            libc::sigaction(sig, &sa, std::ptr::null_mut());
        }
    }
    // watchdog: a case that does not finish within case_timeout_s is a termination violation
    std::thread::spawn(move || {
        let mut last = CASE_SEQ.load(Ordering::SeqCst);
        let mut since = std::time::Instant::now();
        loop {
            std::thread::sleep(std::time::Duration::from_millis(500));
            let cur = CASE_SEQ.load(Ordering::SeqCst);
            if cur != last { last = cur; since = std::time::Instant::now(); continue; }
            if cur != 0 && since.elapsed().as_secs() >= case_timeout_s && !WATCHDOG_PAUSED.load(Ordering::SeqCst) && !COMPILER_PHASE.load(Ordering::SeqCst) {
                // the subject has returned and the engine's own oracle is what is slow: a machinery failure, not a verdict
                if ORACLE_PHASE.load(Ordering::SeqCst) { write_crash_and_exit("PANIC engine oracle exceeded the per-case time limit", 97); }
                write_crash_and_exit("TIMEOUT", 98);
            }
        }
    });
    std::panic::set_hook(Box::new(|info| {
        let msg = format!("PANIC {}", info.to_string().replace('\n', " "));
        eprintln!("{}", msg);
        // a panic raised inside the code under test (a file below /repo) is a finding about the subject, not an engine failure
        let in_subject = info.location().map(|l| l.file().starts_with("/repo/")).unwrap_or(false);
        if in_subject { write_crash_and_exit(&format!("SUBJECT-{}", msg), 99); }
        write_crash_and_exit(&msg, 97);
    }));
}
/// set by a check while it evaluates its oracle on a result the subject has already returned
pub static ORACLE_PHASE: std::sync::atomic::AtomicBool = std::sync::atomic::AtomicBool::new(false);
pub fn oracle_phase(on: bool) { ORACLE_PHASE.store(on, Ordering::SeqCst); }
/// set while the engine waits for the C compiler; the per-case timer restarts when the compiler returns
pub static COMPILER_PHASE: std::sync::atomic::AtomicBool = std::sync::atomic::AtomicBool::new(false);
pub fn compiler_phase(on: bool) { COMPILER_PHASE.store(on, Ordering::SeqCst); CASE_SEQ.fetch_add(1, Ordering::SeqCst); }
pub static WATCHDOG_PAUSED: std::sync::atomic::AtomicBool = std::sync::atomic::AtomicBool::new(false);
pub fn pause_watchdog(p: bool) { WATCHDOG_PAUSED.store(p, Ordering::SeqCst); CASE_SEQ.fetch_add(1, Ordering::SeqCst); }

// ---- master ----------------------------------------------------------------------------------

pub struct CheckMeta {
    pub id: &'static str,
    pub level: &'static str,
    pub rule: &'static str,
    pub assumptions: Vec<String>,
    pub exhaustive: bool,
    pub bounds: Value,
}

pub fn verif_root() -> PathBuf { PathBuf::from(std::env::var("VF_ROOT").unwrap_or_else(|_| "/verif".to_string())) }

pub fn known_findings() -> Vec<(String, String, String, String)> {
    // (status, property, fingerprint, what)
    let p = verif_root().join("known_findings.json");
    let Ok(s) = std::fs::read_to_string(&p) else { return vec![] };
    let v: Value = serde_json::from_str(&s).expect("known_findings.json is not valid JSON");
    let mut out = vec![];
    for e in v["findings"].as_array().cloned().unwrap_or_default() {
        out.push((
            e["status"].as_str().unwrap_or("known").to_string(),
            e["property"].as_str().unwrap_or("").to_string(),
            e["fingerprint"].as_str().unwrap_or("").to_string(),
            e["what"].as_str().unwrap_or("").to_string(),
        ));
    }
    out
}

/// Run `nshards` worker processes of this binary, merge, write evidence, print verdicts. Returns the exit code.
pub fn master(meta: &CheckMeta, tier: &str, seed: u64, extra_env: &[(String, String)]) -> i32 {
    let t0 = std::time::Instant::now();
    let nshards: usize = std::env::var("VF_SHARDS").ok().and_then(|s| s.parse().ok()).unwrap_or(NSHARDS_DEFAULT);
    let exe = std::env::current_exe().unwrap();
    let rundir = crate::lang::work_dir().join("run").join(format!("{}-{}-{}", meta.id, tier, crate::lang::flavour()));
    let _ = std::fs::remove_dir_all(&rundir);
    std::fs::create_dir_all(&rundir).unwrap();
    let mut children = vec![];
    for i in 0..nshards {
        let out = std::fs::File::create(rundir.join(format!("shard{}.json", i))).unwrap();
        let err = std::fs::File::create(rundir.join(format!("shard{}.err", i))).unwrap();
        // VF_VALGRIND=1: every worker runs under valgrind memcheck (uninitialised reads, invalid accesses); the first error
        // ends the worker with exit code 77 and the worker keeps the current case in its crash file at all times
        let mut cmd = if std::env::var("VF_VALGRIND").is_ok() {
            let mut c = std::process::Command::new("valgrind");
            c.args(["-q", "--error-exitcode=77", "--exit-on-first-error=yes", "--undef-value-errors=yes", "--track-origins=yes", "--num-callers=12"]).arg(&exe).env("VF_EAGER_CASE", "1");
            c
        } else { std::process::Command::new(&exe) };
        cmd.arg("worker").arg(meta.id).arg(tier).arg(seed.to_string()).arg(i.to_string()).arg(nshards.to_string())
            .env("VF_CRASH_FILE", rundir.join(format!("shard{}.crash", i)))
            .stdout(out).stderr(err);
        for (k, v) in extra_env { cmd.env(k, v); }
        children.push(cmd.spawn().expect("spawn worker"));
    }
    let mut merged = ShardResult::new();
    merged.max_violations = 50;
    let mut engine_errors: Vec<String> = vec![];
    for (i, mut ch) in children.into_iter().enumerate() {
        let st = ch.wait().unwrap();
        let code = st.code().unwrap_or(-1);
        let crash = std::fs::read_to_string(rundir.join(format!("shard{}.crash", i))).unwrap_or_default();
        if code == 0 {
            let txt = std::fs::read_to_string(rundir.join(format!("shard{}.json", i))).unwrap_or_default();
            match serde_json::from_str::<Value>(txt.lines().last().unwrap_or("")) {
                Ok(v) => merge(&mut merged, &v),
                Err(e) => engine_errors.push(format!("shard {}: unreadable result: {}", i, e)),
            }
        } else if code == 77 && std::env::var("VF_VALGRIND").is_ok() {
            let case: Value = serde_json::from_str(crash.trim_start_matches("CASE\n")).unwrap_or(json!({"raw": crash}));
            let errtail = tail(&rundir.join(format!("shard{}.err", i)), 40);
            let what = errtail.lines().find(|l| l.contains("==") && (l.contains("uninitialised") || l.contains("Invalid") || l.contains("Mismatched") || l.contains("overlap"))).unwrap_or("valgrind error").to_string();
            let fp = if what.contains("uninitialised") { "valgrind:uninitialised-value" } else { "valgrind:invalid-access" };
            merged.violation(fp, format!("valgrind memcheck in worker {}: {} | {}", i, what.trim(), errtail.replace('\n', " | ")), json!({"check": meta.id, "kind": "crash", "case": case}));
            merged.caps.push(format!("shard {} stopped at a valgrind error; its remaining cases were not explored", i));
        } else if code == 99 || code == 98 || st.code().is_none() || is_sanitizer_exit(&rundir, i) {
            // crash / abort / hang inside the subject: a violation with the recorded case
            let mut lines = crash.lines();
            let kind = lines.next().unwrap_or("SIGNAL").to_string();
            let case_txt: String = lines.collect::<Vec<_>>().join("\n");
            let case: Value = serde_json::from_str(&case_txt).unwrap_or(json!({"raw": case_txt}));
            let errtail = tail(&rundir.join(format!("shard{}.err", i)), 30);
            let kind = if kind.is_empty() { format!("exit{}", code) } else { kind };
            let fp = if kind == "TIMEOUT" { "hang".to_string() } else { format!("crash:{}", classify_crash(&kind, &errtail)) };
            merged.violation(&fp, format!("{} in worker {} (exit {}): {}", kind, i, code, errtail.replace('\n', " | ")), json!({"check": meta.id, "kind": "crash", "case": case}));
            merged.caps.push(format!("shard {} stopped at a crash; its remaining cases were not explored", i));
        } else {
            let errtail = tail(&rundir.join(format!("shard{}.err", i)), 15);
            engine_errors.push(format!("shard {} exit {}: {} {}", i, code, crash.replace('\n', " "), errtail.replace('\n', " | ")));
        }
    }
    if !engine_errors.is_empty() {
        for e in &engine_errors { println!("ENGINE-ERROR {}", e); }
        return 2;
    }
    if crate::lang::flavour() == "tsan" {
        let mut benign = 0u64;
        for i in 0..nshards {
            let txt = std::fs::read_to_string(rundir.join(format!("shard{}.err", i))).unwrap_or_default();
            for block in txt.split("WARNING: ThreadSanitizer").skip(1) {
                let block: String = block.lines().take(40).collect::<Vec<_>>().join("\n");
                if tsan_report_is_benign(&block) { benign += 1; continue; }
                merged.violation("tsan-data-race", format!("ThreadSanitizer{}", block.chars().take(1500).collect::<String>()), json!({"check": meta.id, "kind": "tsan", "report": block}));
            }
        }
        merged.count("tsan_reports_on_ownership_reads_and_asserts", benign);
    }
    finish(meta, tier, seed, merged, t0)
}

/// A ThreadSanitizer report is benign iff its non-atomic side is a READ of `ref_count` that sits on a source line which is an
/// assertion or one of the ownership tests (`ref_count == 1`, `ref_count > 1`): such a read cannot lose an update, and for a
/// node that another thread can reach the count is >= 2 whatever the interleaving. Any non-atomic WRITE is reported.
fn tsan_report_is_benign(block: &str) -> bool {
    let mut lines = block.lines().peekable();
    let mut all_plain_ok = true;
    let mut saw_plain = false;
    while let Some(l) = lines.next() {
        let t = l.trim();
        let is_access = (t.starts_with("Read of size") || t.starts_with("Previous read of size") || t.starts_with("Write of size") || t.starts_with("Previous write of size")) && !t.to_lowercase().contains("atomic");
        if !is_access { continue; }
        saw_plain = true;
        if t.to_lowercase().contains("write") { return false; }
        // first frame: "#0 func /path/file.c:LINE:COL (...)"
        let Some(frame) = lines.peek().map(|f| f.to_string()) else { return false };
        // ts_subtree_clone copies the whole node with memcpy, reference count included, and then overwrites the count:
        // that read of the count word is harmless whatever value it sees
        if frame.contains("#0 memcpy") {
            let mut look = lines.clone();
            look.next();
            // (the other side is reported as "Atomic write" or "Previous atomic write", whichever access came second)
            if look.next().map(|f| f.contains("ts_subtree_clone")).unwrap_or(false) && block.to_lowercase().contains("atomic write of size 4") { continue; }
        }
        let Some(loc) = frame.split_whitespace().find(|w| w.contains(".c:") || w.contains(".h:")) else { return false };
        let mut parts = loc.split(':');
        let (Some(file), Some(line)) = (parts.next(), parts.next().and_then(|x| x.parse::<usize>().ok())) else { return false };
        let src = std::fs::read_to_string(file.replace("/./", "/")).unwrap_or_default();
        let text = src.lines().nth(line.saturating_sub(1)).unwrap_or("");
        let ok = text.contains("ref_count") && (text.contains("ts_assert(") || text.contains("ref_count == 1") || text.contains("ref_count > 1"));
        if !ok { all_plain_ok = false; }
    }
    saw_plain && all_plain_ok
}

fn is_sanitizer_exit(rundir: &std::path::Path, i: usize) -> bool {
    let t = tail(&rundir.join(format!("shard{}.err", i)), 60);
    t.contains("AddressSanitizer") || t.contains("runtime error:") || t.contains("ThreadSanitizer") || t.contains("LeakSanitizer")
}
fn classify_crash(kind: &str, err: &str) -> String {
    if err.contains("AddressSanitizer") {
        for k in ["heap-use-after-free", "heap-buffer-overflow", "stack-buffer-overflow", "global-buffer-overflow", "double-free", "SEGV", "stack-overflow"] {
            if err.contains(k) { return format!("asan:{}", k); }
        }
        return "asan".into();
    }
    if err.contains("ThreadSanitizer") { return "tsan".into(); }
    if err.contains("runtime error:") { return "ubsan".into(); }
    if err.contains("Assertion") { return "assert".into(); }
    if kind.starts_with("SUBJECT-PANIC") { return "panic-in-subject".into(); }
    kind.to_string()
}
fn tail(p: &std::path::Path, n: usize) -> String {
    let s = std::fs::read_to_string(p).unwrap_or_default();
    let lines: Vec<&str> = s.lines().collect();
    lines[lines.len().saturating_sub(n)..].join("\n")
}

fn merge(m: &mut ShardResult, v: &Value) {
    m.states += v["states"].as_u64().unwrap_or(0);
    m.transitions += v["transitions"].as_u64().unwrap_or(0);
    m.evaluations += v["evaluations"].as_u64().unwrap_or(0);
    m.nontrivial += v["nontrivial"].as_u64().unwrap_or(0);
    if let Some(o) = v["counters"].as_object() { for (k, n) in o { *m.counters.entry(k.clone()).or_insert(0) += n.as_u64().unwrap_or(0); } }
    for s in v["samples"].as_array().cloned().unwrap_or_default() { if m.samples.len() < 8 { m.samples.push(s); } }
    for c in v["caps"].as_array().cloned().unwrap_or_default() { let c = c.as_str().unwrap_or("").to_string(); if !m.caps.contains(&c) { m.caps.push(c); } }
    for o in v["outcomes"].as_array().cloned().unwrap_or_default() { m.outcomes.insert(o.as_u64().unwrap_or(0)); }
    for x in v["violations"].as_array().cloned().unwrap_or_default() {
        let fp = x["fingerprint"].as_str().unwrap_or("").to_string();
        let same = m.violations.iter().filter(|v| v.fingerprint == fp).count();
        if same < 3 && m.violations.len() < m.max_violations + 20 {
            m.violations.push(Violation { fingerprint: fp, what: x["what"].as_str().unwrap_or("").to_string(), case: x["case"].clone() });
        }
    }
}

/// Write evidence + replays, print verdict lines, return exit code. Also used by single-process checks.
pub fn finish(meta: &CheckMeta, tier: &str, seed: u64, merged: ShardResult, t0: std::time::Instant) -> i32 {
    let root = verif_root();
    let known = known_findings();
    let mut new_violations = 0;
    let mut engine_failures = 0;
    let mut known_hits: BTreeMap<String, String> = BTreeMap::new();
    let replay_dir = root.join("replays").join(meta.id);
    let mut lines = vec![];
    for v in &merged.violations {
        let listed = known.iter().find(|(st, p, fp, _)| st == "known" && p == meta.id && *fp == v.fingerprint);
        if let Some((_, _, fp, what)) = listed {
            known_hits.entry(fp.clone()).or_insert(what.clone());
            continue;
        }
        // a harness that lost control of its subject (fingerprints ENGINE-*) is a machinery failure, never a verdict
        if v.fingerprint.starts_with("ENGINE-") { engine_failures += 1; println!("ENGINE-ERROR [{}] {}", v.fingerprint, v.what); continue; }
        new_violations += 1;
        std::fs::create_dir_all(&replay_dir).unwrap();
        let body = json!({"property": meta.id, "fingerprint": v.fingerprint, "what": v.what, "case": v.case});
        let txt = serde_json::to_string_pretty(&body).unwrap();
        let h = crate::util::fnv(txt.as_bytes());
        let path = replay_dir.join(format!("{:016x}.json", h));
        std::fs::write(&path, txt).unwrap();
        lines.push(format!("VIOLATION property={} replay={}", meta.id, path.display()));
        eprintln!("  [{}] {}", v.fingerprint, v.what);
    }
    for (fp, what) in &known_hits { println!("KNOWN-FINDING: property={} {} [{}]", meta.id, what, fp); }

    let total_viol = merged.counters.get("violations_total").copied().unwrap_or(0);
    let mut cov = Map::new();
    cov.insert("states".into(), json!(merged.states.max(1)));
    cov.insert("transitions".into(), json!(merged.transitions.max(1)));
    cov.insert("traces_validated_against_impl".into(), json!(merged.transitions));
    cov.insert("evaluations".into(), json!(merged.evaluations.max(merged.transitions).max(1)));
    cov.insert("distinct_nontrivial".into(), json!(merged.nontrivial));
    cov.insert("rule".into(), json!(meta.rule));
    cov.insert("samples".into(), json!(if merged.samples.is_empty() { vec![json!("no sample recorded")] } else { merged.samples.clone() }));
    cov.insert("exhaustive".into(), json!(meta.exhaustive && merged.caps.is_empty()));
    cov.insert("distinct_outcomes".into(), json!(merged.outcomes.len()));
    cov.insert("bounds".into(), meta.bounds.clone());
    cov.insert("caps_hit".into(), json!(merged.caps));
    cov.insert("counters".into(), json!(merged.counters));
    cov.insert("explanation".into(), json!("every execution runs on the real implementation rebuilt from /repo; 'traces_validated_against_impl' therefore equals the number of transitions executed"));
    let ev = json!({
        // (the schema knows the tiers quick and thorough; the reduced "mini" box only occurs as a sub-run of a thorough tier)
        "property_id": meta.id, "tier": if tier == "mini" { "thorough" } else { tier }, "seed": seed, "level": meta.level,
        "coverage": Value::Object(cov),
        "assumptions": meta.assumptions,
        "wall_s": t0.elapsed().as_secs_f64(),
        "violations": total_viol,
        "flavour": crate::lang::flavour(),
    });
    let evdir = root.join("evidence");
    std::fs::create_dir_all(&evdir).unwrap();
    let evname = std::env::var("VF_EVIDENCE_NAME").unwrap_or_else(|_| format!("{}.json", meta.id));
    std::fs::write(evdir.join(evname), serde_json::to_string_pretty(&ev).unwrap()).unwrap();

    println!(
        "{} {} flavour={} states={} transitions={} evaluations={} nontrivial={} outcomes={} violations={} known={} caps={} wall={:.1}s",
        meta.id, tier, crate::lang::flavour(), merged.states, merged.transitions, merged.evaluations, merged.nontrivial, merged.outcomes.len(),
        total_viol, known_hits.len(), merged.caps.len(), t0.elapsed().as_secs_f64()
    );
    for l in &lines { println!("{}", l); }
    let _ = std::io::stdout().flush();
    if new_violations > 0 { 1 } else if engine_failures > 0 { 2 } else { 0 }
}

pub fn worker_main(ctx: &Ctx, f: impl FnOnce(&Ctx, &mut ShardResult)) {
    if let Ok(p) = std::env::var("VF_CRASH_FILE") { install_crash_capture(std::path::Path::new(&p), 60); }
    let mut r = ShardResult::new();
    for (st, p, fp, _) in known_findings() { if st == "known" && p == ctx.id { r.known_fps.insert(fp); } }
    f(ctx, &mut r);
    println!("{}", serde_json::to_string(&r.to_json()).unwrap());
}
