//! Build languages from grammar JSON with the *current* generator in /repo, compile with clang, dlopen.
#![allow(dead_code)]
use std::path::{Path, PathBuf};
use std::process::Command;
use tree_sitter::Language;
use tree_sitter_generate::OptLevel;

pub fn work_dir() -> PathBuf {
    PathBuf::from(std::env::var("VF_WORK").unwrap_or_else(|_| "/verif/work".to_string()))
}
pub fn flavour() -> String { std::env::var("VF_FLAVOUR").unwrap_or_else(|_| "plain".to_string()) }

fn include_dir() -> PathBuf {
    let d = work_dir().join("include");
    let ts = d.join("tree_sitter");
    static ONCE: std::sync::Once = std::sync::Once::new();
    ONCE.call_once(|| {
        std::fs::create_dir_all(&ts).unwrap();
        for f in ["parser.h", "alloc.h", "array.h"] {
            let src = Path::new("/repo/lib/src").join(f);
            let dst = ts.join(f);
            let new = std::fs::read(&src).unwrap();
            if std::fs::read(&dst).ok().as_deref() != Some(&new[..]) {
                let tmp = ts.join(format!("{}.{}.tmp", f, std::process::id()));
                std::fs::write(&tmp, &new).unwrap();
                std::fs::rename(&tmp, &dst).unwrap();
            }
        }
    });
    d
}

#[derive(Clone)]
pub struct LangSpec {
    pub name: String,
    pub grammar_json: String,
    pub scanner_c: Option<String>,
}

pub struct Lang {
    pub name: String,
    pub language: Language,
    pub grammar: serde_json::Value,
    pub parser_c_hash: u64,
    pub so_path: PathBuf,
}

#[derive(Debug)]
pub enum BuildError { Generate(String), Compile(String), Load(String) }
impl std::fmt::Display for BuildError {
    fn fmt(&self, f: &mut std::fmt::Formatter) -> std::fmt::Result { write!(f, "{:?}", self) }
}

pub fn generate(grammar_json: &str, opt: OptLevel) -> Result<(String, String), String> {
    let mut diags = Vec::new();
    tree_sitter_generate::generate_parser_for_grammar(grammar_json, None, opt, &mut diags).map_err(|e| format!("{}", e))
}

/// Generate + compile (cached on the content hash of everything that goes into the .so) + load.
pub fn build(spec: &LangSpec, opt: OptLevel) -> Result<Lang, BuildError> {
    let (name, c_code) = generate(&spec.grammar_json, opt).map_err(BuildError::Generate)?;
    build_from_c(&name, &c_code, spec, opt)
}

pub fn build_from_c(name: &str, c_code: &str, spec: &LangSpec, _opt: OptLevel) -> Result<Lang, BuildError> {
    let inc = include_dir();
    let mut h = crate::util::fnv(c_code.as_bytes());
    if let Some(sc) = &spec.scanner_c { h = crate::util::fnv_mix(h, crate::util::fnv(sc.as_bytes())); }
    for f in ["parser.h", "alloc.h", "array.h"] {
        h = crate::util::fnv_mix(h, crate::util::fnv(&std::fs::read(inc.join("tree_sitter").join(f)).unwrap()));
    }
    let fl = flavour();
    let dir = work_dir().join("langs").join(&fl);
    std::fs::create_dir_all(&dir).unwrap();
    let so = dir.join(format!("{}-{:016x}.so", name, h));
    if !so.exists() {
        let pid = std::process::id();
        let tid = format!("{:?}", std::thread::current().id()).replace(|c: char| !c.is_ascii_digit(), "");
        let cfile = dir.join(format!("{}-{:016x}.{}.{}.c", name, h, pid, tid));
        std::fs::write(&cfile, c_code).unwrap();
        let tmp_so = dir.join(format!("{}-{:016x}.{}.{}.so.tmp", name, h, pid, tid));
        let mut cmd = Command::new("clang");
        cmd.arg("-shared").arg("-fPIC").arg("-O1").arg("-g0").arg("-w").arg("-I").arg(&inc).arg("-o").arg(&tmp_so).arg(&cfile);
        let mut scfile = None;
        if let Some(sc) = &spec.scanner_c {
            let p = dir.join(format!("{}-{:016x}.{}.{}.scanner.c", name, h, pid, tid));
            std::fs::write(&p, sc).unwrap();
            cmd.arg(&p);
            scfile = Some(p);
        }
        match fl.as_str() {
            "asan" => { cmd.arg("-fsanitize=address,undefined").arg("-fno-sanitize-recover=undefined").arg("-fno-omit-frame-pointer"); }
            "tsan" => { cmd.arg("-fsanitize=thread"); }
            _ => {}
        }
        // the C compiler is not the subject: its run time (minutes on a loaded machine) must not count as a hang of the case
        crate::run::compiler_phase(true);
        let out = cmd.output();
        crate::run::compiler_phase(false);
        let out = out.map_err(|e| BuildError::Compile(format!("spawn clang: {}", e)))?;
        let _ = std::fs::remove_file(&cfile);
        if let Some(p) = scfile { let _ = std::fs::remove_file(p); }
        if !out.status.success() {
            let _ = std::fs::remove_file(&tmp_so);
            return Err(BuildError::Compile(String::from_utf8_lossy(&out.stderr).to_string()));
        }
        std::fs::rename(&tmp_so, &so).unwrap();
    }
    let language = load_so(&so, name).map_err(BuildError::Load)?;
    Ok(Lang {
        name: name.to_string(),
        language,
        grammar: serde_json::from_str(&spec.grammar_json).unwrap_or(serde_json::Value::Null),
        parser_c_hash: h,
        so_path: so,
    })
}

pub fn load_so(so: &Path, name: &str) -> Result<Language, String> {
    unsafe {
        let lib = libloading::Library::new(so).map_err(|e| format!("dlopen {}: {}", so.display(), e))?;
        let symname = format!("tree_sitter_{}", name);
        let f: libloading::Symbol<unsafe extern "C" fn() -> *const ()> =
            lib.get(symname.as_bytes()).map_err(|e| format!("dlsym {}: {}", symname, e))?;
        let raw = *f;
        std::mem::forget(lib);
        Ok(Language::new(tree_sitter_language::LanguageFn::from_raw(raw)))
    }
}

/// Remove cached .so files (called by `setup`, and by family checks that create many).
pub fn clean_family_cache(prefix: &str) {
    let dir = work_dir().join("langs").join(flavour());
    if let Ok(rd) = std::fs::read_dir(&dir) {
        for e in rd.flatten() {
            if e.file_name().to_string_lossy().starts_with(prefix) { let _ = std::fs::remove_file(e.path()); }
        }
    }
}

/// Load a repo fixture grammar (grammar.js through node) and return its spec.
pub fn fixture_spec(name: &str) -> Result<LangSpec, String> {
    let dir = Path::new("/repo/test/fixtures/test_grammars").join(name);
    let cache = work_dir().join("fixture_json");
    std::fs::create_dir_all(&cache).unwrap();
    let js = dir.join("grammar.js");
    let js_src = std::fs::read(&js).map_err(|e| format!("{}: {}", js.display(), e))?;
    let key = crate::util::fnv(&js_src);
    let cached = cache.join(format!("{}-{:016x}.json", name, key));
    let grammar_json = if let Ok(s) = std::fs::read_to_string(&cached) { s } else {
        let j = tree_sitter_generate::load_grammar_file(&js, Some("node")).map_err(|e| format!("{}", e))?;
        let tmp = cache.join(format!("{}-{:016x}.{}.tmp", name, key, std::process::id()));
        std::fs::write(&tmp, &j).unwrap();
        std::fs::rename(&tmp, &cached).unwrap();
        j
    };
    let scanner_c = std::fs::read_to_string(dir.join("scanner.c")).ok();
    Ok(LangSpec { name: name.to_string(), grammar_json, scanner_c })
}
