//! Document families derived from a zoo language's lexeme alphabet.
#![allow(dead_code)]
use crate::zoo::ZooLang;

/// seeds, then every concatenation of <= k lexemes (shortest first). Exhaustive over the alphabet.
pub fn lexeme_strings(z: &ZooLang, k: usize) -> Vec<Vec<u8>> {
    let mut out: Vec<Vec<u8>> = Vec::new();
    let mut seen = std::collections::HashSet::new();
    for n in 0..=k {
        if n == 0 { if seen.insert(Vec::new()) { out.push(Vec::new()); } continue; }
        crate::util::for_each_seq(z.lexemes.len(), n, |idx| {
            let mut s = Vec::new();
            for &i in idx { s.extend_from_slice(z.lexemes[i].as_bytes()); }
            if seen.insert(s.clone()) { out.push(s); }
        });
    }
    out
}

pub fn seeds(z: &ZooLang) -> Vec<Vec<u8>> { z.seeds.iter().map(|s| s.as_bytes().to_vec()).collect() }

/// seeds first, then lexeme strings up to k, de-duplicated
pub fn docs(z: &ZooLang, k: usize) -> Vec<Vec<u8>> {
    let mut out = seeds(z);
    let mut seen: std::collections::HashSet<Vec<u8>> = out.iter().cloned().collect();
    for d in lexeme_strings(z, k) { if seen.insert(d.clone()) { out.push(d); } }
    out
}
