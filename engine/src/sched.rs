//! vf-sched: a controlled scheduler for real OS threads running the C runtime. Threads pass a baton; hook H1 calls
//! `yield_hook` before/after every reference-count atomic and before every plain ref_count read. A point is a scheduling
//! point only if its address lies in an allocation that existed before the threads were started (shared nodes).
#![allow(dead_code)]
use std::cell::Cell;
use std::ffi::c_void;
use std::sync::{Condvar, Mutex};

#[derive(Clone, Debug)]
pub struct Point { pub enabled: Vec<usize>, pub chosen: usize, pub running_enabled: bool }

struct State {
    active: bool,
    n: usize,
    finished: Vec<bool>,
    turn: usize,
    current: Option<usize>,
    prefix: Vec<usize>,
    trace: Vec<Point>,
    shared: Vec<(usize, usize)>,
    hook_calls: u64,
    shared_points: u64,
    diverged: bool,
}

static STATE: Mutex<Option<State>> = Mutex::new(None);
static CV: Condvar = Condvar::new();
thread_local! { static TID: Cell<Option<usize>> = Cell::new(None); }

extern "C" { fn ts_verif_set_yield_hook(hook: Option<unsafe extern "C" fn(i32, *const c_void)>); }

pub fn install_hook() { unsafe { ts_verif_set_yield_hook(Some(yield_hook)); } }
pub fn remove_hook() { unsafe { ts_verif_set_yield_hook(None); } }

unsafe extern "C" fn yield_hook(_kind: i32, addr: *const c_void) {
    let Some(id) = TID.with(|t| t.get()) else { return };
    let mut g = STATE.lock().unwrap_or_else(|e| e.into_inner());
    let Some(st) = g.as_mut() else { return };
    if !st.active { return; }
    st.hook_calls += 1;
    let a = addr as usize;
    let idx = st.shared.partition_point(|&(s, _)| s <= a);
    if idx == 0 || a >= st.shared[idx - 1].1 { return; }
    st.shared_points += 1;
    // scheduling point: decide who runs next
    let next = decide(st, Some(id));
    if next != id {
        st.turn = next;
        CV.notify_all();
        while g.as_ref().unwrap().turn != id { g = CV.wait(g).unwrap_or_else(|e| e.into_inner()); }
    }
}

/// canonical order: the running thread first (if still enabled), then ascending ids
fn decide(st: &mut State, running: Option<usize>) -> usize {
    let mut enabled: Vec<usize> = vec![];
    if let Some(r) = running { if !st.finished[r] { enabled.push(r); } }
    for i in 0..st.n { if !st.finished[i] && Some(i) != running { enabled.push(i); } }
    let step = st.trace.len();
    let mut choice = if step < st.prefix.len() { st.prefix[step] } else { 0 };
    if choice >= enabled.len() { st.diverged = true; choice = 0; }
    let chosen = enabled[choice];
    let running_enabled = running.map(|r| !st.finished[r]).unwrap_or(false);
    st.trace.push(Point { enabled, chosen: choice, running_enabled });
    st.current = Some(chosen);
    chosen
}

/// called by the counting allocator when a block is freed: it is no longer a shared node
pub fn on_free(addr: usize) {
    let mut g = STATE.lock().unwrap_or_else(|e| e.into_inner());
    if let Some(st) = g.as_mut() {
        if !st.active { return; }
        let idx = st.shared.partition_point(|&(s, _)| s < addr);
        if idx < st.shared.len() && st.shared[idx].0 == addr { st.shared.remove(idx); }
    }
}

pub struct RunResult { pub trace: Vec<Point>, pub hook_calls: u64, pub shared_points: u64, pub diverged: bool }

/// Run the given thread bodies under the scheduler following `prefix` (choice indices), defaults afterwards.
/// `shared` = address ranges of allocations that exist before the threads start.
pub fn run<T: Send + 'static>(bodies: Vec<Box<dyn FnOnce() -> T + Send>>, prefix: &[usize], shared: Vec<(usize, usize)>) -> (Vec<T>, RunResult) {
    let n = bodies.len();
    {
        let mut g = STATE.lock().unwrap_or_else(|e| e.into_inner());
        *g = Some(State { active: true, n, finished: vec![false; n], turn: usize::MAX, current: None, prefix: prefix.to_vec(), trace: vec![], shared, hook_calls: 0, shared_points: 0, diverged: false });
    }
    let mut handles = vec![];
    for (id, body) in bodies.into_iter().enumerate() {
        handles.push(std::thread::spawn(move || {
            TID.with(|t| t.set(Some(id)));
            // wait for the first turn
            {
                let mut g = STATE.lock().unwrap_or_else(|e| e.into_inner());
                while g.as_ref().unwrap().turn != id { g = CV.wait(g).unwrap_or_else(|e| e.into_inner()); }
            }
            let r = body();
            // finished: hand the baton on
            {
                let mut g = STATE.lock().unwrap_or_else(|e| e.into_inner());
                let st = g.as_mut().unwrap();
                st.finished[id] = true;
                if st.finished.iter().any(|f| !f) {
                    let next = decide(st, Some(id));
                    st.turn = next;
                } else {
                    st.turn = usize::MAX - 1;
                }
                CV.notify_all();
            }
            TID.with(|t| t.set(None));
            r
        }));
    }
    // initial decision
    {
        let mut g = STATE.lock().unwrap_or_else(|e| e.into_inner());
        let st = g.as_mut().unwrap();
        let first = decide(st, None);
        st.turn = first;
        CV.notify_all();
    }
    let results: Vec<T> = handles.into_iter().map(|h| h.join().expect("controlled thread panicked")).collect();
    let mut g = STATE.lock().unwrap_or_else(|e| e.into_inner());
    let st = g.take().unwrap();
    (results, RunResult { trace: st.trace, hook_calls: st.hook_calls, shared_points: st.shared_points, diverged: st.diverged })
}

/// Depth-first enumeration of all schedules with at most `bound` preemptions. `exec(prefix)` runs one schedule and returns
/// its trace; `visit` is called once per execution. Returns the number of executions.
pub fn explore(bound: usize, max_execs: u64, exec: &mut dyn FnMut(&[usize]) -> RunResult, visit: &mut dyn FnMut(&[usize], &RunResult)) -> (u64, bool) {
    let mut count = 0u64;
    let mut capped = false;
    let mut stack: Vec<Vec<usize>> = vec![vec![]];
    while let Some(prefix) = stack.pop() {
        if count >= max_execs { capped = true; break; }
        let r = exec(&prefix);
        count += 1;
        let choices: Vec<usize> = r.trace.iter().map(|p| p.chosen).collect();
        visit(&choices, &r);
        // preemptions used before each point
        let mut used = 0usize;
        let mut used_before = Vec::with_capacity(r.trace.len());
        for p in &r.trace { used_before.push(used); if p.running_enabled && p.chosen != 0 { used += 1; } }
        for i in (prefix.len()..r.trace.len()).rev() {
            let p = &r.trace[i];
            for alt in 1..p.enabled.len() {
                let cost = used_before[i] + if p.running_enabled { 1 } else { 0 };
                if cost > bound { continue; }
                let mut np: Vec<usize> = choices[..i].to_vec();
                np.push(alt);
                stack.push(np);
            }
        }
    }
    (count, capped)
}
