mod gram;
mod text;
mod util;
mod lang;
mod xtree;
#[macro_use]
mod run;
mod zoo;
mod wf;
mod hist;
mod docs;
mod alloc;
mod sched;
mod deriv;
mod families;
mod qref;
mod checks;

fn usage() -> ! {
    eprintln!("usage: vf-engine check <ID> <quick|thorough> | worker <ID> <tier> <seed> <shard> <nshards> | replay <file> | prebuild");
    std::process::exit(2);
}

fn main() {
    let args: Vec<String> = std::env::args().collect();
    if args.len() < 2 { usage(); }
    match args[1].as_str() {
        "check" => {
            if args.len() < 4 { usage(); }
            let seed: u64 = std::env::var("VERIF_SEED").ok().and_then(|s| s.parse().ok()).unwrap_or(0);
            let code = checks::master(&args[2], &args[3], seed);
            std::process::exit(code);
        }
        "worker" => {
            if args.len() < 7 { usage(); }
            let tier = args[3].clone();
            let budget: u64 = std::env::var("VF_BUDGET_S").ok().and_then(|s| s.parse().ok()).unwrap_or(if tier == "quick" { 40 } else { 1500 });
            let ctx = run::Ctx {
                id: args[2].clone(), tier, seed: args[4].parse().unwrap(), shard: args[5].parse().unwrap(), nshards: args[6].parse().unwrap(),
                deadline: std::time::Instant::now() + std::time::Duration::from_secs(budget),
            };
            run::worker_main(&ctx, |c, r| checks::worker(c, r));
        }
        "replay" => {
            if args.len() < 3 { usage(); }
            std::process::exit(checks::replay(&args[2]));
        }
        "loader-probe" => { checks::c19::probe_main(&args[2], &args[3]); }
        "genhash" => { checks::c15::genhash_main(&args[2]); }
        "derive" => {
            // derive <grammar_id> <token indices...>: show the reference derivations (debugging aid)
            let all: Vec<families::FamGrammar> = families::g1().into_iter().chain(families::g2()).chain(families::g3()).chain(families::g4()).collect();
            let f = all.iter().find(|f| f.id == args[2]).expect("grammar id");
            let ix: Vec<usize> = args[3..].iter().map(|a| a.parse().unwrap()).collect();
            let (text, toks) = checks::c03::text_of(f, &ix, " ");
            println!("grammar: {}", f.g.to_json());
            if let Err(e) = lang::generate(&f.g.to_json(), tree_sitter_generate::OptLevel::default()) { println!("GENERATE ERROR: {}", e); }
            println!("text: {:?} toks: {:?}", String::from_utf8_lossy(&text), toks);
            let rg = deriv::RefGrammar::from_json(&f.g.to_value());
            let d = deriv::Deriver::new(&rg, &toks);
            for (r, dp) in d.roots() { println!("  dp={} {}", dp, deriv::render(&r)); }
        }
        "probe" => {
            // probe <lang> <text>: print the explicit tree with indices (debugging aid)
            let z = zoo::by_name(&args[2]).expect("zoo language");
            let l = lang::build(&z.spec, tree_sitter_generate::OptLevel::default()).expect("build");
            let text = args[3].replace("\\n", "\n");
            let mut p = tree_sitter::Parser::new();
            p.set_language(&l.language).unwrap();
            let t = p.parse(text.as_bytes(), None).unwrap();
            println!("{}", t.root_node().to_sexp());
            let xt = xtree::XTree::build(&t);
            for (i, n) in xt.nodes.iter().enumerate() {
                println!("{}#{} {} {}", "  ".repeat(n.depth as usize), i, l.language.node_kind_for_id(n.kind_id).unwrap_or("?"), xt.brief(i));
            }
            if args.len() > 4 { println!("{}", xtree::internal_dump(&t)); }
        }
        _ => usage(),
    }
}
