mod gram;
mod text;
mod util;
mod lang;
mod xtree;
#[macro_use]
mod run;
mod zoo;
mod wf;
mod hist;
mod docs;
mod alloc;
mod sched;
mod deriv;
mod families;
mod qref;
mod checks;

fn usage() -> ! {
    eprintln!("usage: vf-engine check <ID> <quick|thorough> | worker <ID> <tier> <seed> <shard> <nshards> | replay <file> | prebuild");
    std::process::exit(2);
}

/// Everything runs on a thread with a very large (lazily committed) stack: the H2 hook functions and the runtime's own
/// recursive helpers recurse once per nesting level, and the deep-nesting document families nest 100000 levels.
fn main() {
    let h = std::thread::Builder::new().name("vf-main".into()).stack_size(8usize << 30).spawn(real_main).expect("spawn main thread");
    match h.join() { Ok(()) => {} Err(_) => std::process::exit(97) }
}

fn real_main() {
    let args: Vec<String> = std::env::args().collect();
    if args.len() < 2 { usage(); }
    match args[1].as_str() {
        "check" => {
            if args.len() < 4 { usage(); }
            let seed: u64 = std::env::var("VERIF_SEED").ok().and_then(|s| s.parse().ok()).unwrap_or(0);
            let code = checks::master(&args[2], &args[3], seed);
            std::process::exit(code);
        }
        "worker" => {
            if args.len() < 7 { usage(); }
            let tier = args[3].clone();
            let budget: u64 = std::env::var("VF_BUDGET_S").ok().and_then(|s| s.parse().ok()).unwrap_or(if tier == "quick" { if args[2] == "C07" { 300 } else { 150 } } else { 1500 });
            let ctx = run::Ctx {
                id: args[2].clone(), tier, seed: args[4].parse().unwrap(), shard: args[5].parse().unwrap(), nshards: args[6].parse().unwrap(),
                deadline: std::time::Instant::now() + std::time::Duration::from_secs(budget),
            };
            run::worker_main(&ctx, |c, r| checks::worker(c, r));
        }
        "replay" => {
            if args.len() < 3 { usage(); }
            std::process::exit(checks::replay(&args[2]));
        }
        "loader-probe" => { checks::c19::probe_main(&args[2], &args[3], args.get(4).map(|a| a == "debug").unwrap_or(false)); }
        "genhash" => { checks::c15::genhash_main(&args[2]); }
        "derive" => {
            // derive <grammar_id> <token indices...>: show the reference derivations (debugging aid)
            let all: Vec<families::FamGrammar> = families::g1().into_iter().chain(families::g2()).chain(families::g3()).chain(families::g4()).collect();
            let f = all.iter().find(|f| f.id == args[2]).expect("grammar id");
            let ix: Vec<usize> = args[3..].iter().map(|a| a.parse().unwrap()).collect();
            let (text, toks) = checks::c03::text_of(f, &ix, " ");
            println!("grammar: {}", f.g.to_json());
            if let Err(e) = lang::generate(&f.g.to_json(), tree_sitter_generate::OptLevel::default()) { println!("GENERATE ERROR: {}", e); }
            println!("text: {:?} toks: {:?}", String::from_utf8_lossy(&text), toks);
            let rg = deriv::RefGrammar::from_json(&f.g.to_value());
            let d = deriv::Deriver::new(&rg, &toks);
            for (r, dp) in d.roots() { println!("  dp={} {}", dp, deriv::render(&r)); }
        }
        "reuse-log" => {
            // reuse-log <lang> <n>: histogram of parse-log events of one incremental re-parse (debugging aid)
            let z = zoo::by_name(&args[2]).expect("zoo language");
            let l = lang::build(&z.spec, tree_sitter_generate::OptLevel::default()).expect("build");
            let (doc, edit_at) = checks::c12::gen_doc(&args[2], args[3].parse().unwrap());
            let mut p = tree_sitter::Parser::new();
            p.set_language(&l.language).unwrap();
            let tree = p.parse(&doc, None).unwrap();
            let pos = edit_at[edit_at.len() / 2];
            let e = text::Edit { start: pos, old_len: 1, ins: b"q".to_vec() };
            let (nt, ie) = text::apply(&doc, &e);
            let mut old = tree.clone();
            old.edit(&ie);
            let hist = std::sync::Arc::new(std::sync::Mutex::new(std::collections::BTreeMap::<String, usize>::new()));
            let h2 = hist.clone();
            let verbose = args.len() > 4;
            let seen_edit = std::sync::Arc::new(std::sync::atomic::AtomicUsize::new(0));
            let se = seen_edit.clone();
            p.set_logger(Some(Box::new(move |_t, m: &str| {
                if verbose { if m.starts_with("cant_reuse_node_has_changes") || se.load(std::sync::atomic::Ordering::Relaxed) > 0 { let n = se.fetch_add(1, std::sync::atomic::Ordering::Relaxed); if n < 140 { eprintln!("LOG {}", m); } } } let k = m.split(|c: char| c == ' ' || c == ':').next().unwrap_or("").to_string(); let k = if m.starts_with("reuse_node") || m.starts_with("cant_reuse") || m.starts_with("reduce") { m.split(',').next().unwrap_or(m).to_string() } else { k }; *h2.lock().unwrap().entry(k).or_insert(0) += 1; })));
            let t2 = p.parse(&nt, Some(&old)).unwrap();
            println!("nodes {} error {}", t2.root_node().descendant_count(), t2.root_node().has_error());
            let mut v: Vec<(String, usize)> = hist.lock().unwrap().iter().map(|(k, v)| (k.clone(), *v)).collect();
            v.sort_by_key(|x| std::cmp::Reverse(x.1));
            for (k, c) in v.iter().take(25) { println!("{:8} {}", c, k); }
        }
        "probe" => {
            // probe <lang> <text>: print the explicit tree with indices (debugging aid)
            let z = zoo::by_name(&args[2]).expect("zoo language");
            let l = lang::build(&z.spec, tree_sitter_generate::OptLevel::default()).expect("build");
            // text "@<file>": read the document from a file and only report timing and size
            if let Some(path) = args[3].strip_prefix('@') {
                let text = std::fs::read(path).expect("document file");
                let mut p = tree_sitter::Parser::new();
                p.set_language(&l.language).unwrap();
                let t0 = std::time::Instant::now();
                let t = p.parse(&text, None).unwrap();
                println!("parse: {:.2}s, {} bytes, root has_error={} descendants={}", t0.elapsed().as_secs_f64(), text.len(), t.root_node().has_error(), t.root_node().descendant_count());
                if std::env::var("VF_PROBE_SEXP").is_ok() { let t3 = std::time::Instant::now(); let sx = t.root_node().to_sexp(); println!("to_sexp: {:.2}s, {} bytes", t3.elapsed().as_secs_f64(), sx.len()); }
                let t1 = std::time::Instant::now();
                let xt = xtree::XTree::build(&t);
                println!("explicit tree: {:.2}s, {} nodes", t1.elapsed().as_secs_f64(), xt.nodes.len());
                let anon_with_field = xt.nodes.iter().filter(|n| !n.named && n.field_id != 0).count();
                println!("anonymous nodes with a field: {}", anon_with_field);
                let t2 = std::time::Instant::now();
                drop(t);
                println!("tree release: {:.2}s", t2.elapsed().as_secs_f64());
                return;
            }
            let text = args[3].replace("\\n", "\n");
            let mut p = tree_sitter::Parser::new();
            p.set_language(&l.language).unwrap();
            if std::env::var("VF_PARSE_LOG").is_ok() { p.set_logger(Some(Box::new(|t, m: &str| { if t == tree_sitter::LogType::Parse { println!("  log: {}", m); } }))); }
            let t = p.parse(text.as_bytes(), None).unwrap();
            p.set_logger(None);
            println!("{}", t.root_node().to_sexp());
            let xt = xtree::XTree::build(&t);
            for (i, n) in xt.nodes.iter().enumerate() {
                println!("{}#{} {} {}", "  ".repeat(n.depth as usize), i, l.language.node_kind_for_id(n.kind_id).unwrap_or("?"), xt.brief(i));
            }
            if args.len() > 4 && args[4] == "dump" { println!("{}", xtree::internal_dump(&t)); }
            // probe <lang> <text> query <source>: also run a query and print every match
            if args.len() > 5 && args[4] == "query" {
                use streaming_iterator::StreamingIterator;
                match tree_sitter::Query::new(&l.language, &args[5]) {
                    Err(e) => println!("query rejected: {:?}", e),
                    Ok(q) => {
                        let mut cur = tree_sitter::QueryCursor::new();
                        let mut ms = cur.matches(&q, t.root_node(), text.as_bytes());
                        while let Some(m) = ms.next() {
                            let caps: Vec<String> = m.captures.iter().map(|c| format!("{}=#{}", q.capture_names()[c.index as usize], xt.nodes.iter().position(|n| n.id == c.node.id()).map(|i| i as i64).unwrap_or(-1))).collect();
                            println!("match pattern {}: {}", m.pattern_index, caps.join(" "));
                        }
                    }
                }
            }
        }
        "probe-grammar" => {
            // probe-grammar <grammar.json> <text> [noopt]: build an arbitrary grammar and print the tree (debugging aid)
            let gj = std::fs::read_to_string(&args[2]).expect("grammar file");
            let name = serde_json::from_str::<serde_json::Value>(&gj).unwrap()["name"].as_str().unwrap().to_string();
            let opt = if args.len() > 4 && args[4] == "noopt" { tree_sitter_generate::OptLevel::empty() } else { tree_sitter_generate::OptLevel::default() };
            let l = lang::build(&lang::LangSpec { name, grammar_json: gj, scanner_c: None }, opt).expect("build");
            let mut p = tree_sitter::Parser::new();
            p.set_language(&l.language).unwrap();
            let text = args[3].replace("\\n", "\n");
            println!("{}", p.parse(text.as_bytes(), None).unwrap().root_node().to_sexp());
        }
        _ => usage(),
    }
}
