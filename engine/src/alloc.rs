//! Counting allocator installed through ts_set_allocator: live allocations, balance, foreign/double frees.
#![allow(dead_code)]
use std::collections::HashMap;
use std::ffi::c_void;
use std::sync::atomic::{AtomicBool, AtomicU64, Ordering};
use std::sync::Mutex;

static LIVE: Mutex<Option<HashMap<usize, usize>>> = Mutex::new(None);
static BAD_FREES: AtomicU64 = AtomicU64::new(0);
static TOTAL_ALLOCS: AtomicU64 = AtomicU64::new(0);
static INSTALLED: AtomicBool = AtomicBool::new(false);

fn with<R>(f: impl FnOnce(&mut HashMap<usize, usize>) -> R) -> R {
    let mut g = LIVE.lock().unwrap_or_else(|e| e.into_inner());
    if g.is_none() { *g = Some(HashMap::new()); }
    f(g.as_mut().unwrap())
}

unsafe extern "C" fn v_malloc(size: usize) -> *mut c_void {
    let p = libc::malloc(size.max(1));
    if !p.is_null() { with(|m| { m.insert(p as usize, size); }); TOTAL_ALLOCS.fetch_add(1, Ordering::Relaxed); }
    p
}
unsafe extern "C" fn v_calloc(n: usize, size: usize) -> *mut c_void {
    let p = libc::calloc(n.max(1), size.max(1));
    if !p.is_null() { with(|m| { m.insert(p as usize, n * size); }); TOTAL_ALLOCS.fetch_add(1, Ordering::Relaxed); }
    p
}
unsafe extern "C" fn v_realloc(ptr: *mut c_void, size: usize) -> *mut c_void {
    if ptr.is_null() { return v_malloc(size); }
    let known = with(|m| m.remove(&(ptr as usize)).is_some());
    if known { crate::sched::on_free(ptr as usize); }
    if !known { BAD_FREES.fetch_add(1, Ordering::Relaxed); return libc::malloc(size.max(1)); }
    let p = libc::realloc(ptr, size.max(1));
    if !p.is_null() { with(|m| { m.insert(p as usize, size); }); }
    p
}
unsafe extern "C" fn v_free(ptr: *mut c_void) {
    if ptr.is_null() { return; }
    let sz = with(|m| m.remove(&(ptr as usize)));
    match sz {
        Some(sz) => {
            crate::sched::on_free(ptr as usize);
            // poison, so that a use after free is more likely to be noticed even without a sanitizer
            std::ptr::write_bytes(ptr as *mut u8, 0xDD, sz);
            libc::free(ptr);
        }
        None => { BAD_FREES.fetch_add(1, Ordering::Relaxed); }
    }
}

pub fn install() {
    if INSTALLED.swap(true, Ordering::SeqCst) { return; }
    unsafe { tree_sitter::set_allocator(Some(tree_sitter::Allocator { malloc: v_malloc, calloc: v_calloc, realloc: v_realloc, free: v_free })); }
}
pub fn live_count() -> usize { with(|m| m.len()) }
pub fn bad_frees() -> u64 { BAD_FREES.load(Ordering::Relaxed) }
pub fn total_allocs() -> u64 { TOTAL_ALLOCS.load(Ordering::Relaxed) }
/// sorted (start, end) address ranges of all live allocations
pub fn live_ranges() -> Vec<(usize, usize)> {
    let mut v: Vec<(usize, usize)> = with(|m| m.iter().map(|(&p, &s)| (p, p + s.max(1))).collect());
    v.sort();
    v
}
