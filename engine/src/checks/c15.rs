//! C15: generation is deterministic (separate processes, both API paths); state merging never changes results.
use crate::checks::c03::{build_fam, family_list, text_of};
use crate::families::{self, FamGrammar};
use crate::lang::{self, LangSpec};
use crate::run::{CheckMeta, Ctx, ShardResult};
use crate::xtree::XTree;
use serde_json::{json, Value};
use tree_sitter::Parser;
use tree_sitter_generate::OptLevel;

pub fn meta(tier: &str) -> CheckMeta {
    CheckMeta {
        id: "C15", level: "model_checking",
        rule: "(a) equivalence, E-box: for every zoo grammar and every accepted grammar of the C03 families, parsers generated with OptLevel::MergeStates and OptLevel::empty() are compared on every token string of the C03 box (families) / every document of seeds + lexeme strings (zoo): same has_error, and identical visible trees whenever error-free. (b) determinism: every one of those grammars is generated in three separate processes (different pids, ASLR) through generate_parser_for_grammar and through the CLI path generate_parser_in_directory; parser.c and node-types.json must be byte-identical across processes and paths. Non-trivial = (grammar, string) pairs accepted by both parsers (a) + grammars compared across processes (b).",
        assumptions: vec!["(b) draws three processes; process-level hash seeds are not enumerable. The generator uses FxHashMap (unseeded) and no threads today.".into()],
        exhaustive: false,
        bounds: json!({"tier": tier, "family_bounds": "as C03", "g5_grammars": if tier == "quick" { "78 of 156 (every second)" } else { "all 156" }, "g5_inputs": "4 prefixes x every body over {a,b,c,space,z} up to 4 characters", "processes": 3}),
    }
}

fn compare_parsers(name: &str, a: &tree_sitter::Language, b: &tree_sitter::Language, text: &[u8], res: &mut ShardResult, case: Value) {
    crate::run::tick();
    let mut pa = Parser::new(); pa.set_language(a).unwrap();
    let mut pb = Parser::new(); pb.set_language(b).unwrap();
    let ta = pa.parse(text, None).unwrap();
    let tb = pb.parse(text, None).unwrap();
    let (xa, xb) = (XTree::build(&ta), XTree::build(&tb));
    res.transitions += 1;
    if xa.root_has_error() != xb.root_has_error() {
        res.violation("merge-states-changes-acceptance", format!("{}: {:?} merged has_error={} unmerged has_error={}", name, String::from_utf8_lossy(text), xa.root_has_error(), xb.root_has_error()), case);
    } else if !xa.root_has_error() {
        res.nontrivial += 1;
        // kinds are compared by name: symbol ids may legitimately be numbered identically, but names are what users see
        let mut bad = None;
        if xa.nodes.len() != xb.nodes.len() { bad = Some("node count".to_string()); }
        else { for i in 0..xa.nodes.len() {
            let (p, q) = (&xa.nodes[i], &xb.nodes[i]);
            if a.node_kind_for_id(p.kind_id) != b.node_kind_for_id(q.kind_id) || p.start != q.start || p.end != q.end || p.children.len() != q.children.len() || p.named != q.named
                || a.field_name_for_id(p.field_id) != b.field_name_for_id(q.field_id) || p.extra != q.extra || p.missing != q.missing { bad = Some(format!("node #{}", i)); break; }
        } }
        if let Some(m) = bad { res.violation("merge-states-changes-tree", format!("{}: {:?}: {} differs: {} vs {}", name, String::from_utf8_lossy(text), m, xa.sexp(a), xb.sexp(b)), case); }
    }
}

/// child process: generate every grammar listed in the file, print one line per grammar with content hashes
pub fn genhash_main(list_file: &str) {
    let txt = std::fs::read_to_string(list_file).unwrap();
    let dir = std::path::PathBuf::from(format!("{}.dir.{}", list_file, std::process::id()));
    for line in txt.lines() {
        let v: Value = serde_json::from_str(line).unwrap();
        let name = v["name"].as_str().unwrap();
        let gj = serde_json::to_string(&v["grammar"]).unwrap();
        let h1 = match lang::generate(&gj, OptLevel::default()) { Ok((_, c)) => format!("{:016x}", crate::util::fnv(c.as_bytes())), Err(_) => "rejected".into() };
        // CLI path
        let _ = std::fs::remove_dir_all(&dir);
        std::fs::create_dir_all(dir.join("src")).unwrap();
        std::fs::write(dir.join("src").join("grammar.json"), &gj).unwrap();
        let mut diags = vec![];
        let r = tree_sitter_generate::generate_parser_in_directory(dir.clone(), None::<std::path::PathBuf>, Some(dir.join("src").join("grammar.json")), tree_sitter::LANGUAGE_VERSION, None, None, true, OptLevel::default(), &mut diags);
        let (h2, h3) = match r {
            Ok(()) => (format!("{:016x}", crate::util::fnv(&std::fs::read(dir.join("src").join("parser.c")).unwrap())), format!("{:016x}", crate::util::fnv(&std::fs::read(dir.join("src").join("node-types.json")).unwrap()))),
            Err(_) => ("rejected".into(), "rejected".into()),
        };
        println!("{} {} {} {}", name, h1, h2, h3);
    }
    let _ = std::fs::remove_dir_all(&dir);
}

/// G5: one nonterminal reduced in two contexts whose look-ahead sets are {T1, T2} and {T2}, for every ordered pair of
/// distinct tokens of the C14 menu (strings and patterns that match overlapping strings): whether the two states with
/// the same core may be merged depends on the lexical conflicts between T1 and T2, in both directions.
///   source -> 'x' item (T1 'z' | T2) | 'y' item T2        item -> '#' '#'
/// (with a one-token item the generator never builds two states for the end of `item`.)
fn g5() -> Vec<(String, crate::gram::G)> {
    use crate::gram::*;
    let m = crate::checks::c14::menu();
    let mut out = vec![];
    // (`rev`: the token that only ONE of the two states has is declared after the shared one, so that it comes last in that
    // state's sorted entries, behind everything the other state has)
    for rev in [false, true] { for (i, a) in m.iter().enumerate() { for (j, b) in m.iter().enumerate() {
        if i == j { continue; }
        let tok = |t: &(&'static str, bool)| if t.1 { s(t.0) } else { pat(t.0) };
        let mut g = G::new(&format!("g5{}_{}_{}", if rev { "r" } else { "" }, i, j))
            .rule("source", choice(vec![
                seq(vec![s("x"), sym("item"), choice(vec![seq(vec![sym("t1"), s("z")]), sym("t2")])]),
                seq(vec![s("y"), sym("item"), sym("t2")]),
            ]))
            .rule("item", seq(vec![s("#"), s("#")]));
        g = if rev { g.rule("t2", tok(b)).rule("t1", tok(a)) } else { g.rule("t1", tok(a)).rule("t2", tok(b)) };
        g = g.extras(vec![pat(" ")]);
        out.push((g.name.clone(), g));
    } } }
    out
}

/// G9, for the determinism part only: grammars that put SEVERAL elements into every collection the generator walks while
/// numbering things (k non-terminal extras with distinct first tokens, and one grammar with several supertypes, inlined
/// rules, fields, aliases, named precedences, external tokens, keywords and conflicts). Where an unordered collection leaked
/// into the output, two processes (different hash seeds) agree with probability 1/k!.
fn g9() -> Vec<(String, crate::gram::G)> {
    use crate::gram::*;
    let mut out = vec![];
    for k in 2..=5usize {
        let toks = ["#", "@", "~", "^", "%"];
        let mut g = G::new(&format!("g9_nte_{}", k)).rule("source", rep(sym("word"))).rule("word", pat("[a-z]+"));
        let mut extras = vec![pat("\\s")];
        for j in 0..k { g = g.rule(&format!("ex{}", j), seq(vec![s(toks[j]), sym("word")])); extras.push(sym(&format!("ex{}", j))); }
        g = g.extras(extras);
        out.push((g.name.clone(), g));
    }
    let e = || sym("_expr");
    let g = G::new("g9_sink")
        .word("ident")
        .supertype("_expr").supertype("_stmt").supertype("_decl")
        .inline("_in_a").inline("_in_b")
        .external(sym("ext_a")).external(sym("ext_b")).external(sym("ext_c"))
        .conflict(&["call", "index"]).conflict(&["tuple", "paren"])
        .precedence_order(&["mul", "add", "cmp"])
        .rule("source", rep(sym("_stmt")))
        .rule("_stmt", choice(vec![sym("ret"), sym("expr_stmt"), sym("_decl")]))
        .rule("_decl", choice(vec![sym("let_decl"), sym("fn_decl"), sym("type_decl")]))
        .rule("let_decl", seq(vec![s("let"), field("name", alias(sym("ident"), "binding", true)), s("="), field("value", e()), s(";")]))
        .rule("fn_decl", seq(vec![s("fn"), field("name", alias(sym("ident"), "fn_name", true)), s("("), field("param", rep(sym("ident"))), s(")"), field("body", sym("_in_a"))]))
        .rule("type_decl", seq(vec![s("type"), field("name", alias(sym("ident"), "type_name", true)), s("="), field("kind", sym("_in_b")), s(";")]))
        .rule("_in_a", seq(vec![s("{"), rep(sym("_stmt")), s("}")]))
        .rule("_in_b", choice(vec![sym("ident"), sym("ext_a"), seq(vec![sym("ext_b"), sym("ident")])]))
        .rule("ret", seq(vec![s("return"), opt(e()), sym("ext_c"), s(";")]))
        .rule("expr_stmt", seq(vec![e(), s(";")]))
        .rule("_expr", choice(vec![sym("ident"), sym("number"), sym("binary"), sym("call"), sym("index"), sym("paren"), sym("tuple")]))
        .rule("binary", choice(vec![
            prec_named_left("mul", seq(vec![field("left", e()), s("*"), field("right", e())])),
            prec_named_left("add", seq(vec![field("left", e()), s("+"), field("right", e())])),
            prec_named_left("cmp", seq(vec![field("left", e()), s("<"), field("right", e())])),
        ]))
        .rule("call", prec(5, seq(vec![field("callee", e()), s("("), opt(e()), s(")")])))
        .rule("index", prec(5, seq(vec![field("base", e()), s("["), e(), s("]")])))
        .rule("paren", seq(vec![s("("), e(), s(")")]))
        .rule("tuple", seq(vec![s("("), e(), s(","), e(), s(")")]))
        .rule("ident", pat("[a-z_]+"))
        .rule("number", pat("[0-9]+"))
        .rule("comment", token(seq(vec![s("//"), pat("[^\\n]*")])))
        .rule("note", seq(vec![s("#"), sym("ident")]))
        .rule("mark", seq(vec![s("@"), sym("number")]))
        .extras(vec![pat("\\s"), sym("comment"), sym("note"), sym("mark")]);
    out.push((g.name.clone(), g));
    out
}

fn zoo_specs() -> Vec<(String, LangSpec, Vec<Vec<u8>>)> {
    crate::zoo::core_zoo().into_iter().chain(std::iter::once(crate::zoo::tmpl())).map(|z| { let docs = crate::docs::docs(&z, 3); (z.name.to_string(), z.spec.clone(), docs) }).collect()
}

pub fn worker(ctx: &Ctx, res: &mut ShardResult) {
    let fams = family_list(&ctx.tier);
    let (n1, n2, n3, _) = crate::checks::c03::params(&ctx.tier);
    let mut mine: Vec<Value> = vec![];
    // (a) equivalence on the families
    for (i, f) in fams.iter().enumerate() {
        if !ctx.mine(i) { continue; }
        crate::case!("{}", json!({"part": "equivalence", "grammar_id": f.id}));
        let Ok(merged) = build_fam(f, OptLevel::default()) else { continue };
        let unmerged = match build_fam(f, OptLevel::empty()) { Ok(l) => l, Err(e) => { res.violation("unmerged-generation-fails", format!("{}: {}", f.id, e), json!({"grammar_id": f.id})); continue; } };
        res.states += 1;
        mine.push(json!({"name": f.id, "grammar": f.g.to_value()}));
        let n = match f.kind { "G1" => n1, "G2" => n2, "G4" | "G7" => 5.min(n1.max(4)), "G8" => 6.min(n1.max(4) + 1), "G10" => 4.min(n1.max(3)), _ => n3 };
        for ix in families::token_strings(f.alphabet.len(), n) {
            if families::skip_string(f, &ix) { continue; }
            let (text, _) = text_of(f, &ix, if f.has_ws_extras { " " } else { "" });
            compare_parsers(&f.id, &merged.language, &unmerged.language, &text, res, json!({"part": "equivalence", "grammar_id": f.id, "text": crate::util::bytes_json(&text)}));
        }
        let _ = std::fs::remove_file(&merged.so_path);
        let _ = std::fs::remove_file(&unmerged.so_path);
        if res.too_many() { return; }
        if ctx.out_of_time() { res.caps.push("wall-clock budget reached in equivalence part".into()); break; }
    }
    // (a) equivalence on the lexical-conflict family G5: inputs <x|y> '#' body, body over {a, b, c, ' ', z} up to 4 characters
    let g5s = g5();
    let g5cap = if ctx.mini() { 6 } else if ctx.quick() { 104 } else { g5s.len() };
    let step = (g5s.len() as f64 / g5cap as f64).max(1.0);
    let chosen: Vec<usize> = (0..g5cap).map(|k| (k as f64 * step) as usize).filter(|&k| k < g5s.len()).collect();
    for (ci, &gi) in chosen.iter().enumerate() {
        if !ctx.mine(ci + 3) { continue; }
        let (name, g) = &g5s[gi];
        crate::case!("{}", json!({"part": "equivalence", "grammar_id": name}));
        let spec = LangSpec { name: name.clone(), grammar_json: g.to_json(), scanner_c: None };
        let Ok(merged) = lang::build(&spec, OptLevel::default()) else { res.count("g5_rejected_by_generator", 1); continue };
        let unmerged = match lang::build(&spec, OptLevel::empty()) { Ok(l) => l, Err(e) => { res.violation("unmerged-generation-fails", format!("{}: {}", name, e), json!({"grammar_id": name})); continue; } };
        res.states += 1;
        res.count("g5_grammars", 1);
        mine.push(json!({"name": name, "grammar": g.to_value()}));
        let body = ["a", "b", "c", " ", "z"];
        for pre in ["x##", "y##", "x # #", "y## "] {
            for len in 0..=4usize {
                let mut run = |ix: &[usize]| {
                    let mut text = pre.to_string();
                    for &i in ix { text.push_str(body[i]); }
                    compare_parsers(name, &merged.language, &unmerged.language, text.as_bytes(), res, json!({"part": "equivalence", "grammar_id": name, "text": text}));
                };
                if len == 0 { run(&[]); } else { crate::util::for_each_seq(body.len(), len, |ix| run(ix)); }
            }
        }
        let _ = std::fs::remove_file(&merged.so_path);
        let _ = std::fs::remove_file(&unmerged.so_path);
        if res.too_many() { return; }
        if ctx.out_of_time() { res.caps.push("wall-clock budget reached in equivalence part (G5)".into()); break; }
    }
    // (a) equivalence on the zoo
    for (zi, (name, spec, docs)) in zoo_specs().into_iter().enumerate() {
        if !ctx.mine(zi + 7) { continue; }
        crate::case!("{}", json!({"part": "equivalence", "zoo": name}));
        let merged = lang::build(&spec, OptLevel::default()).expect("zoo builds");
        let unmerged = match lang::build(&spec, OptLevel::empty()) { Ok(l) => l, Err(e) => { res.violation("unmerged-generation-fails", format!("{}: {}", name, e), json!({"zoo": name})); continue; } };
        res.states += 1;
        mine.push(json!({"name": name, "grammar": serde_json::from_str::<Value>(&spec.grammar_json).unwrap()}));
        for d in docs { compare_parsers(&name, &merged.language, &unmerged.language, &d, res, json!({"part": "equivalence", "zoo": name, "text": crate::util::bytes_json(&d)})); }
    }
    // (b') determinism on G9: six processes (worker 0 only; the grammars exist for this part alone)
    if ctx.shard == 0 {
        let g9s: Vec<Value> = g9().into_iter().map(|(name, g)| json!({"name": name, "grammar": g.to_value()})).collect();
        let dir = lang::work_dir().join("run").join(format!("c15-g9-{}", std::process::id()));
        std::fs::create_dir_all(&dir).unwrap();
        let list = dir.join("grammars.jsonl");
        std::fs::write(&list, g9s.iter().map(|v| serde_json::to_string(v).unwrap()).collect::<Vec<_>>().join("\n")).unwrap();
        let exe = std::env::current_exe().unwrap();
        crate::run::pause_watchdog(true);
        let mut outs: Vec<Vec<String>> = vec![];
        for _ in 0..6 {
            let o = std::process::Command::new(&exe).arg("genhash").arg(&list).output().expect("spawn genhash");
            if !o.status.success() { res.violation("generator-process-failed", String::from_utf8_lossy(&o.stderr).chars().take(500).collect(), json!({"part": "determinism-g9"})); }
            outs.push(String::from_utf8_lossy(&o.stdout).lines().map(|l| l.to_string()).collect());
        }
        crate::run::pause_watchdog(false);
        for (k, line) in outs[0].iter().enumerate() {
            res.transitions += 6;
            let name = line.split(' ').next().unwrap_or("");
            if line.contains(" rejected") { res.violation("ENGINE-g9-grammar-rejected", format!("the generator rejects {}", line), json!({"part": "determinism-g9", "grammar": name})); continue; }
            res.nontrivial += 1;
            res.states += 1;
            let distinct: std::collections::HashSet<&String> = outs.iter().filter_map(|o| o.get(k)).collect();
            if distinct.len() != 1 || outs.iter().any(|o| o.len() != outs[0].len()) {
                res.violation("generation-not-deterministic", format!("grammar {}: {} distinct outputs among 6 processes: {:?}", name, distinct.len(), distinct), json!({"part": "determinism-g9", "grammar": name}));
            }
        }
        let _ = std::fs::remove_dir_all(&dir);
    }
    // (b) determinism: three separate processes over this shard's grammars
    if mine.is_empty() { return; }
    let dir = lang::work_dir().join("run").join(format!("c15-{}-{}", ctx.shard, std::process::id()));
    std::fs::create_dir_all(&dir).unwrap();
    let list = dir.join("grammars.jsonl");
    std::fs::write(&list, mine.iter().map(|v| serde_json::to_string(v).unwrap()).collect::<Vec<_>>().join("\n")).unwrap();
    let exe = std::env::current_exe().unwrap();
    crate::run::pause_watchdog(true);
    let mut outs: Vec<Vec<String>> = vec![];
    for _ in 0..3 {
        let o = std::process::Command::new(&exe).arg("genhash").arg(&list).output().expect("spawn genhash");
        if !o.status.success() { res.violation("generator-process-failed", String::from_utf8_lossy(&o.stderr).chars().take(500).collect(), json!({"part": "determinism"})); }
        outs.push(String::from_utf8_lossy(&o.stdout).lines().map(|l| l.to_string()).collect());
    }
    crate::run::pause_watchdog(false);
    for (k, line) in outs[0].iter().enumerate() {
        res.transitions += 3;
        let name = line.split(' ').next().unwrap_or("");
        for other in &outs[1..] {
            if other.get(k) != Some(line) { res.violation("generation-not-deterministic", format!("grammar {}: process outputs differ: {:?} vs {:?}", name, line, other.get(k)), json!({"part": "determinism", "grammar": name})); }
        }
        let parts: Vec<&str> = line.split(' ').collect();
        if parts.len() == 4 && parts[1] != "rejected" {
            res.nontrivial += 1;
            // the in-memory API (no version) and the directory path may differ only through the metadata version; compare within path across processes only
        }
    }
    let _ = std::fs::remove_dir_all(&dir);
    if res.samples.len() < 1 { res.sample(json!({"determinism_line": outs[0].first()})); }
}

/// Re-run one recorded equivalence case (grammar + text): merged and unmerged parsers built afresh from the current generator.
pub fn replay(case: &Value) -> Vec<String> {
    let case = if case.get("kind").and_then(|k| k.as_str()) == Some("crash") { &case["case"] } else { case };
    if case["part"].as_str() != Some("equivalence") { return vec![format!("determinism cases compare three generator processes: rerun ./vf check C15 quick ({})", case)]; }
    let spec = if let Some(zn) = case["zoo"].as_str() {
        let Some(z) = crate::zoo::by_name(zn) else { return vec![format!("unknown zoo language {}", zn)] };
        z.spec.clone()
    } else {
        let id = case["grammar_id"].as_str().unwrap_or("");
        if let Some((name, g)) = g5().into_iter().find(|(n, _)| n == id) { LangSpec { name, grammar_json: g.to_json(), scanner_c: None } }
        else if let Some(f) = family_list("thorough").into_iter().find(|f| f.id == id) { LangSpec { name: f.g.name.clone(), grammar_json: f.g.to_json(), scanner_c: None } }
        else { return vec![format!("unknown grammar {}", id)] }
    };
    let (Ok(merged), Ok(unmerged)) = (lang::build(&spec, OptLevel::default()), lang::build(&spec, OptLevel::empty())) else { return vec!["the grammar does not build with one of the two optimisation levels".into()] };
    let text = crate::util::bytes_from_json(&case["text"]);
    let mut pa = Parser::new(); pa.set_language(&merged.language).unwrap();
    let mut pb = Parser::new(); pb.set_language(&unmerged.language).unwrap();
    println!("merged:   {}", pa.parse(&text, None).unwrap().root_node().to_sexp());
    println!("unmerged: {}", pb.parse(&text, None).unwrap().root_node().to_sexp());
    let mut res = ShardResult::new();
    compare_parsers(&spec.name, &merged.language, &unmerged.language, &text, &mut res, case.clone());
    res.violations.iter().map(|v| format!("{}: {}", v.fingerprint, v.what)).collect()
}
