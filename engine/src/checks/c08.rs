//! C08: trees are persistent values (C08a: sequential handle histories; C08b: exhaustive schedules of threads on distinct copies).
use crate::checks::c_hist::build_info;
use crate::run::{CheckMeta, Ctx, ShardResult};
use crate::text::{self, Edit};
use crate::wf::LangInfo;
use crate::xtree::{self, XTree};
use crate::{alloc, sched};
use serde_json::{json, Value};
use std::collections::{HashSet, VecDeque};
use tree_sitter::{Parser, Tree};

pub fn meta(tier: &str) -> CheckMeta {
    let q = tier == "quick";
    CheckMeta {
        id: "C08", level: "model_checking",
        rule: "C08a (E-hist): BFS over histories of {copy(i), edit(i,e), reparse(i) keeping both, walk+query(i), delete(i)} on <=3 live handles descending from one parse (state = per-handle (text, internal tree hash, reference-count hash) via hooks H1/H2, every state rebuilt by replaying its history); before/after every operation on handle i the internal dump of every OTHER handle must be unchanged and i itself unchanged for non-mutating operations; all allocations freed once all handles are gone. C08b (E-sched): 2 (thorough also 3) real OS threads on distinct copies run 1-2 operations each on the real C runtime under a baton-passing scheduler; hook H1 yields before/after every reference-count atomic and before every plain ref_count read on nodes that existed before the threads started; depth-first enumeration of ALL schedules up to the preemption bound, each from a fresh parse; per schedule: thread results == sequential results, the base handle's internal dump unchanged, allocation balance zero, no foreign/double free. Non-trivial = schedule with >=1 preemption on a shared node (C08b) / operation on a handle that shares structure with another live handle (C08a).",
        assumptions: vec![
            "the scheduler explores sequentially consistent interleavings at the hooked points; a non-atomic read-modify-write cannot be split and is the business of the free-running TSan pass (thorough tier, separate flavour)".into(),
            "hardware reorderings weaker than sequential consistency are not modelled".into(),
        ],
        exhaustive: true,
        bounds: json!({"c08a_depth": if q { 3 } else { 4 }, "max_live_handles": 3, "c08b_threads": if q { "2" } else { "2 and 3" }, "c08b_ops_per_thread": "1..2", "preemption_bound": if q { 1 } else { 2 }}),
    }
}

// ------------------------------------------------------------------------------------------- C08a

#[derive(Clone, Debug, PartialEq)]
enum HOp { Copy(usize), Edit(usize, usize), Reparse(usize), Walk(usize), Delete(usize) }

struct Handle { text: Vec<u8>, tree: Tree }

/// Per-language text appended at the end of the document (behind a gap, several elements at once): the elements extend
/// the last repetition of the old tree, whose nodes the re-parse reuses and re-balances. Set once per language by the
/// explorer (a relaxed atomic, so that the free-running race-detector pass gains no ordering from it).
static TAIL: std::sync::atomic::AtomicUsize = std::sync::atomic::AtomicUsize::new(0);
const TAILS: [(&str, &[u8]); 7] = [("", b""), ("stmts", b"  e f g"), ("indent", b" f\n g\n h\n"), ("arith", b" +4+5+6"), ("pstring", b"  e f g"), ("modal", b"  e f g"), ("colm", b"  e ! g")];
fn set_tail(lang: &str) { TAIL.store(TAILS.iter().position(|t| t.0 == lang).unwrap_or(0), std::sync::atomic::Ordering::Relaxed); }

fn edits_for(text: &[u8]) -> Vec<Edit> {
    let mut v = edits_for_base(text);
    let tail = TAILS[TAIL.load(std::sync::atomic::Ordering::Relaxed)].1;
    if !tail.is_empty() { v.push(Edit { start: text.len(), old_len: 0, ins: tail.to_vec() }); }
    v
}

fn edits_for_base(text: &[u8]) -> Vec<Edit> {
    let n = text.len();
    let mut v = vec![Edit { start: 0, old_len: 0, ins: b"a;".to_vec() }, Edit { start: n, old_len: 0, ins: b" b;".to_vec() }];
    if n > 0 { v.push(Edit { start: 0, old_len: 1, ins: vec![] }); v.push(Edit { start: n / 2, old_len: 1, ins: vec![] }); v.push(Edit { start: n / 2, old_len: 0, ins: b"\n".to_vec() }); v.push(Edit { start: n - 1, old_len: 1, ins: b"x".to_vec() }); v.push(Edit { start: 0, old_len: 1.min(n), ins: b"z".to_vec() }); }
    v
}

fn apply_hop(parser: &mut Parser, hs: &mut Vec<Handle>, op: &HOp) {
    match *op {
        HOp::Copy(i) => { let h = Handle { text: hs[i].text.clone(), tree: hs[i].tree.clone() }; hs.push(h); }
        HOp::Edit(i, e) => {
            let es = edits_for(&hs[i].text);
            let e = &es[e % es.len()];
            let (nt, ie) = text::apply(&hs[i].text, e);
            hs[i].tree.edit(&ie);
            hs[i].text = nt;
        }
        HOp::Reparse(i) => { let t = parser.parse(&hs[i].text, Some(&hs[i].tree)).unwrap(); let h = Handle { text: hs[i].text.clone(), tree: t }; hs.push(h); }
        HOp::Walk(i) => { let _ = XTree::build(&hs[i].tree); let _ = query_hash(&hs[i].tree, &hs[i].text); }
        HOp::Delete(i) => { hs.remove(i); }
    }
}

fn ops_at(hs: &[Handle]) -> Vec<HOp> {
    let mut v = vec![];
    for i in 0..hs.len() {
        if hs.len() < 3 { v.push(HOp::Copy(i)); v.push(HOp::Reparse(i)); }
        for e in 0..edits_for(&hs[i].text).len() { v.push(HOp::Edit(i, e)); }
        v.push(HOp::Walk(i));
        if hs.len() > 1 { v.push(HOp::Delete(i)); }
    }
    v
}

/// "queried": every named node through a real query cursor (a read-only use of the handle)
fn query_hash(t: &Tree, text: &[u8]) -> u64 {
    use streaming_iterator::StreamingIterator;
    let Ok(q) = tree_sitter::Query::new(&t.language(), "(_) @n") else { return 0 };
    let mut cur = tree_sitter::QueryCursor::new();
    let mut h = 14695981039346656037u64;
    let mut it = cur.matches(&q, t.root_node(), text);
    while let Some(m) = it.next() { for c in m.captures { h = crate::util::fnv_mix(h, c.node.start_byte() as u64 * 31 + c.node.kind_id() as u64); } }
    h
}

fn snapshot(h: &Handle) -> (u64, u64) { (xtree::internal_hash(&h.tree), visible_hash(&h.tree)) }
fn visible_hash(t: &Tree) -> u64 {
    let x = XTree::build(t);
    let mut h = 14695981039346656037u64;
    for n in &x.nodes { for v in [n.kind_id as u64, n.start as u64, n.end as u64, n.sp.row as u64, n.sp.column as u64, n.children.len() as u64, n.has_changes as u64, n.field_id as u64, n.has_error as u64, n.extra as u64, n.named as u64, n.missing as u64, n.is_error as u64] { h = crate::util::fnv_mix(h, v); } }
    h
}
extern "C" { fn ts_verif_hash_ref_counts(tree: *const std::ffi::c_void) -> u64; }
fn rc_hash(t: &Tree) -> u64 { unsafe { ts_verif_hash_ref_counts(xtree::raw_tree(t)) } }

fn state_key(hs: &[Handle]) -> Vec<(u64, u64, u64)> {
    let mut k: Vec<(u64, u64, u64)> = hs.iter().map(|h| (crate::util::fnv(&h.text), xtree::internal_hash(&h.tree), rc_hash(&h.tree))).collect();
    k.sort();
    k
}

fn rebuild(info: &LangInfo, parser: &mut Parser, doc: &[u8], path: &[HOp]) -> Vec<Handle> {
    let t = parser.parse(doc, None).unwrap();
    let mut hs = vec![Handle { text: doc.to_vec(), tree: t }];
    for op in path { apply_hop(parser, &mut hs, op); }
    let _ = info;
    hs
}

fn c08a(ctx: &Ctx, info: &LangInfo, doc: &[u8], depth: usize, res: &mut ShardResult) {
    let base_live = alloc::live_count();
    let mut parser = Parser::new();
    parser.set_language(&info.language).unwrap();
    let mut seen: HashSet<Vec<(u64, u64, u64)>> = HashSet::new();
    let mut frontier: VecDeque<Vec<HOp>> = VecDeque::new();
    {
        let hs = rebuild(info, &mut parser, doc, &[]);
        seen.insert(state_key(&hs));
    }
    frontier.push_back(vec![]);
    res.states += 1;
    while let Some(path) = frontier.pop_front() {
        let ops = { let hs = rebuild(info, &mut parser, doc, &path); ops_at(&hs) };
        for op in ops {
            let mut full = path.clone();
            full.push(op.clone());
            let case = json!({"part": "a", "lang": info.name, "doc": crate::util::bytes_json(doc), "history": format!("{:?}", full)});
            crate::case!("{}", case);
            let mut hs = rebuild(info, &mut parser, doc, &path);
            let before: Vec<(u64, u64)> = hs.iter().map(snapshot).collect();
            let shared = hs.len() > 1;
            apply_hop(&mut parser, &mut hs, &op);
            res.transitions += 1;
            if shared { res.nontrivial += 1; }
            // compare: every handle other than the operated one is unchanged; the operated one too unless the op mutates it
            let (target, mutates, removed) = match op { HOp::Copy(i) => (i, false, false), HOp::Edit(i, _) => (i, true, false), HOp::Reparse(i) => (i, false, false), HOp::Walk(i) => (i, false, false), HOp::Delete(i) => (i, false, true) };
            let mut j_after = 0usize;
            for (j, b) in before.iter().enumerate() {
                if removed && j == target { continue; }
                let a = snapshot(&hs[j_after]);
                j_after += 1;
                if j == target && mutates { continue; }
                if a.0 != b.0 { res.violation("other-handle-changed-internally", format!("after {:?} handle {} changed its internal dump", op, j), case.clone()); }
                if a.1 != b.1 { res.violation("other-handle-changed-visibly", format!("after {:?} handle {} changed what it shows", op, j), case.clone()); }
            }
            let key = state_key(&hs);
            let newstate = seen.insert(key);
            drop(hs);
            parser.reset();
            // everything released: allocation balance (the parser keeps its own pools, so compare with a fresh baseline)
            if newstate {
                res.states += 1;
                if full.len() < depth { frontier.push_back(full); }
            }
            if res.too_many() { return; }
        }
        if ctx.out_of_time() { res.caps.push("wall-clock budget reached (C08a)".into()); break; }
    }
    drop(parser);
    let live = alloc::live_count();
    if live != base_live { res.violation("allocation-imbalance", format!("{} allocations live after all handles and the parser were released (baseline {})", live, base_live), json!({"part": "a", "lang": info.name, "doc": crate::util::bytes_json(doc)})); }
    if alloc::bad_frees() > 0 { res.violation("foreign-or-double-free", format!("{} frees of unknown pointers", alloc::bad_frees()), json!({"part": "a", "lang": info.name, "doc": crate::util::bytes_json(doc)})); }
}

// ------------------------------------------------------------------------------------------- C08b

#[derive(Clone, Copy, Debug, PartialEq)]
pub enum TOp { EditReparse(usize), CopyDrop, EditOnly(usize), Walk, Drop }

const TOPS: [TOp; 6] = [TOp::EditReparse(0), TOp::EditReparse(2), TOp::CopyDrop, TOp::EditOnly(1), TOp::Drop, TOp::Walk];

/// run a thread program on its own handle; returns a hash per operation of what the thread observed
fn run_program(language: &tree_sitter::Language, mut text: Vec<u8>, tree: Tree, prog: &[TOp]) -> Vec<u64> {
    let mut parser = Parser::new();
    parser.set_language(language).unwrap();
    let mut handle = Some(tree);
    let mut out = vec![];
    for op in prog {
        let Some(t) = handle.as_mut() else { break };
        match *op {
            TOp::EditReparse(e) => {
                let es = edits_for(&text);
                let e = &es[e % es.len()];
                let (nt, ie) = text::apply(&text, e);
                t.edit(&ie);
                let new = parser.parse(&nt, Some(&*t)).unwrap();
                out.push(visible_hash(&new));
                text = nt;
                handle = Some(new);
            }
            TOp::CopyDrop => { let c = t.clone(); out.push(visible_hash(&c)); drop(c); }
            TOp::EditOnly(e) => {
                let es = edits_for(&text);
                let e = &es[e % es.len()];
                let (nt, ie) = text::apply(&text, e);
                t.edit(&ie);
                text = nt;
                out.push(visible_hash(t));
            }
            TOp::Walk => { out.push(visible_hash(t)); out.push(query_hash(t, &text)); }
            TOp::Drop => { handle = None; out.push(1); }
        }
    }
    drop(handle);
    drop(parser);
    out
}

struct Harness { doc: Vec<u8>, progs: Vec<Vec<TOp>>, keep_base: bool }

fn harness_json(lang: &str, h: &Harness, schedule: &[usize]) -> Value {
    json!({"part": "b", "lang": lang, "doc": crate::util::bytes_json(&h.doc), "programs": h.progs.iter().map(|p| format!("{:?}", p)).collect::<Vec<_>>(), "keep_base": h.keep_base, "schedule": schedule})
}

/// One execution of the harness under the scheduler with the given schedule prefix.
fn exec_harness(info: &LangInfo, h: &Harness, prefix: &[usize], expected: &[Vec<u64>]) -> (sched::RunResult, Vec<(String, String)>) {
    let mut errs = vec![];
    let base_live = alloc::live_count();
    let bad0 = alloc::bad_frees();
    let mut parser = Parser::new();
    parser.set_language(&info.language).unwrap();
    let base = parser.parse(&h.doc, None).unwrap();
    drop(parser);
    let base_hash = (xtree::internal_hash(&base), visible_hash(&base));
    let copies: Vec<Tree> = h.progs.iter().map(|_| base.clone()).collect();
    let kept = if h.keep_base { Some(base) } else { drop(base); None };
    let shared = alloc::live_ranges();
    let mut bodies: Vec<Box<dyn FnOnce() -> Vec<u64> + Send>> = vec![];
    for (prog, copy) in h.progs.iter().zip(copies.into_iter()) {
        let lang = info.language.clone();
        let text = h.doc.clone();
        let prog = prog.clone();
        bodies.push(Box::new(move || run_program(&lang, text, copy, &prog)));
    }
    let (results, rr) = sched::run(bodies, prefix, shared);
    for (i, r) in results.iter().enumerate() {
        if r != &expected[i] { errs.push(("thread-result-differs-from-sequential".into(), format!("thread {} observed {:?}, sequentially {:?}", i, r, expected[i]))); }
    }
    if let Some(b) = kept {
        let now = (xtree::internal_hash(&b), visible_hash(&b));
        if now.0 != base_hash.0 { errs.push(("base-handle-changed-internally".into(), "the handle kept by the main thread changed its internal dump while other threads worked on copies".into())); }
        if now.1 != base_hash.1 { errs.push(("base-handle-changed-visibly".into(), "the handle kept by the main thread shows a different tree".into())); }
        drop(b);
    }
    let live = alloc::live_count();
    if live != base_live { errs.push(("allocation-imbalance".into(), format!("{} allocations live after every handle was released (baseline {})", live, base_live))); }
    if alloc::bad_frees() != bad0 { errs.push(("foreign-or-double-free".into(), format!("{} frees of pointers that were not live", alloc::bad_frees() - bad0))); }
    if rr.diverged { errs.push(("ENGINE-schedule-divergence".into(), "replaying a recorded prefix met fewer enabled threads than recorded".into())); }
    (rr, errs)
}

fn c08b(ctx: &Ctx, info: &LangInfo, h: &Harness, bound: usize, res: &mut ShardResult) {
    // sequential expectation, without the scheduler
    let expected: Vec<Vec<u64>> = h.progs.iter().map(|p| {
        let mut parser = Parser::new();
        parser.set_language(&info.language).unwrap();
        let t = parser.parse(&h.doc, None).unwrap();
        run_program(&info.language, h.doc.clone(), t, p)
    }).collect();
    let name = info.name.clone();
    let mut violations: Vec<(String, String, Vec<usize>)> = vec![];
    let mut nontrivial = 0u64;
    let mut outcomes: HashSet<u64> = HashSet::new();
    let mut first_trace_len = 0usize;
    let mut exec = |prefix: &[usize]| -> sched::RunResult {
        crate::case!("{}", harness_json(&name, h, prefix));
        let (rr, errs) = exec_harness(info, h, prefix, &expected);
        let choices: Vec<usize> = rr.trace.iter().map(|p| p.chosen).collect();
        for (fp, m) in errs { if violations.len() < 5 { violations.push((fp, m, choices.clone())); } }
        rr
    };
    let mut visit = |choices: &[usize], rr: &sched::RunResult| {
        if first_trace_len == 0 { first_trace_len = rr.trace.len(); }
        if rr.trace.iter().any(|p| p.running_enabled && p.chosen != 0) { nontrivial += 1; }
        outcomes.insert(crate::util::fnv(&choices.iter().map(|&c| c as u8).collect::<Vec<u8>>()) % 1000);
    };
    let (count, capped) = sched::explore(if ctx.mini() { 0 } else { bound }, if ctx.quick() { 4000 } else { 60000 }, &mut exec, &mut visit);
    res.transitions += count;
    res.states += count;
    res.nontrivial += nontrivial;
    res.count("schedules", count);
    res.count("harnesses", 1);
    res.count("scheduling_points_default_run", first_trace_len as u64);
    if capped { let c = format!("schedule cap reached for a harness at preemption bound {}", bound); if !res.caps.contains(&c) { res.caps.push(c); } }
    for (fp, m, sch) in violations { res.violation(&fp, m, harness_json(&info.name, h, &sch)); }
    if res.samples.len() < 2 { res.sample(harness_json(&info.name, h, &[])); }
    // determinism self-check: the default schedule replayed twice gives identical traces
    let (a, _) = exec_harness(info, h, &[], &expected);
    let (b, _) = exec_harness(info, h, &[], &expected);
    let ta: Vec<(usize, usize)> = a.trace.iter().map(|p| (p.enabled.len(), p.chosen)).collect();
    let tb: Vec<(usize, usize)> = b.trace.iter().map(|p| (p.enabled.len(), p.chosen)).collect();
    if ta != tb { res.violation("ENGINE-nondeterministic-replay", format!("two runs of the same schedule differ: {} vs {} points", ta.len(), tb.len()), harness_json(&info.name, h, &[])); }
}

fn docs_for(name: &str) -> Vec<&'static str> {
    // (indent / pstring: the last documents nest deep enough for external scanner states of more than 24 bytes, which
    // tokens keep on the heap; a copied token must own its copy)
    // (a body of five statements: a node whose last child is a long repetition)
    if name == "indent" { return vec!["a:\n b\nc\n", "a:\n b\n c\n d\n e\n k\n\n\n", Box::leak(crate::zoo::deep_indent_doc(26).into_boxed_str())]; }
    if name == "pstring" { return vec!["%(a(b)c) d", Box::leak(crate::zoo::deep_pstring_doc(9).into_boxed_str())]; }
    match name {
        // (last: a multi-line comment token, i.e. a heap leaf, that is a rule member after '@' and an extra without it)
        "stmts" => vec!["a; b;", "let a = 1; { b; c; } d;", "a;b;c;d;e;f;g;h;i;j;k;l;m;n;o;p;", "@ /*a\nb*/ x;", "use a b c d x y   "],
        "arith" => vec!["1+2*3", "f(1,2,3,4,5,6,7,8,9)"],
        "jsonish" => vec!["[1,[2,3],{\"a\":4}]"],
        "pstring" => vec!["%(a(b)c) d"],
        "modal" => vec!["[a] ! [b] c d"],
        "colm" => vec!["a ! (b @) !\n @ c"],
        _ => vec![],
    }
}

/// Free-running pass for the `tsan` flavour: the same thread bodies without the scheduler (whose baton hand-offs would be
/// happens-before edges that blind the detector), 2..16 threads, repeated. Any ThreadSanitizer report aborts the worker
/// and is reported as a violation with the recorded case.
extern "C" { fn ts_verif_install_acquire_hook(); }

fn tsan_pass(ctx: &Ctx, res: &mut ShardResult) {
    // model the plain ownership reads as acquire loads (see DESIGN.md, C08)
    unsafe { ts_verif_install_acquire_hook(); }
    let reps = if ctx.quick() { 20 } else { 200 };
    let mut idx = 0usize;
    for z in crate::zoo::core_zoo().iter() {
        let docs = docs_for(z.name);
        if docs.is_empty() { continue; }
        let info = build_info(z);
        set_tail(z.name);
        for d in &docs {
            for nthreads in [2usize, 3, 4, 8, 16] {
                idx += 1;
                if !ctx.mine(idx) { continue; }
                for rep in 0..reps {
                    crate::case!("{}", json!({"part": "tsan", "lang": z.name, "doc": d, "threads": nthreads, "rep": rep}));
                    let mut parser = Parser::new();
                    parser.set_language(&info.language).unwrap();
                    let base = parser.parse(d.as_bytes(), None).unwrap();
                    let mut hs = vec![];
                    for t in 0..nthreads {
                        let copy = base.clone();
                        let lang = info.language.clone();
                        let text = d.as_bytes().to_vec();
                        let prog = vec![TOPS[(t + rep) % TOPS.len()], TOPS[(t * 3 + 1) % TOPS.len()]];
                        hs.push(std::thread::spawn(move || run_program(&lang, text, copy, &prog)));
                    }
                    if rep % 2 == 0 { drop(base); for h in hs { let _ = h.join(); } } else { for h in hs { let _ = h.join(); } drop(base); }
                    res.transitions += nthreads as u64;
                    res.states += 1;
                    res.nontrivial += 1;
                }
            }
        }
    }
    res.sample(json!({"part": "tsan", "threads": [2, 3, 4, 8, 16], "repetitions": reps}));
}

pub fn worker(ctx: &Ctx, res: &mut ShardResult) {
    if crate::lang::flavour() == "tsan" { tsan_pass(ctx, res); return; }
    alloc::install();
    sched::install_hook();
    let depth = if ctx.mini() { 2 } else if ctx.quick() { 3 } else { 4 };
    let bound = if ctx.quick() { 1 } else { 2 };
    let mut idx = 0usize;
    for z in crate::zoo::core_zoo().iter() {
        let docs = docs_for(z.name);
        if docs.is_empty() { continue; }
        let info = build_info(z);
        set_tail(z.name);
        for d in &docs {
            idx += 1;
            if ctx.mine(idx) { c08a(ctx, &info, d.as_bytes(), depth, res); }
        }
        // C08b harnesses: every pair of 1-op programs, plus 2-op programs on the first document; with and without the base handle
        for (di, d) in docs.iter().enumerate() {
            let mut progs: Vec<Vec<TOp>> = TOPS.iter().map(|&o| vec![o]).collect();
            if di == 0 { for &a in &TOPS[..4] { for &b in &[TOp::EditReparse(1), TOp::Drop] { progs.push(vec![a, b]); } } }
            for (pi, p) in progs.iter().enumerate() {
                for q in progs[pi..].iter() {
                    for keep in [true, false] {
                        idx += 1;
                        if !ctx.mine(idx) { continue; }
                        let h = Harness { doc: d.as_bytes().to_vec(), progs: vec![p.clone(), q.clone()], keep_base: keep };
                        c08b(ctx, &info, &h, bound, res);
                        if res.too_many() { return; }
                    }
                }
                if ctx.out_of_time() { res.caps.push("wall-clock budget reached (C08b)".into()); return; }
            }
            if !ctx.quick() && di == 0 {
                // three threads, one operation each
                for a in 0..4 { for b in a..4 { for c in b..4 {
                    idx += 1;
                    if !ctx.mine(idx) { continue; }
                    let h = Harness { doc: d.as_bytes().to_vec(), progs: vec![vec![TOPS[a]], vec![TOPS[b]], vec![TOPS[c]]], keep_base: true };
                    c08b(ctx, &info, &h, 1, res);
                } } }
            }
        }
    }
    sched::remove_hook();
}

fn parse_usize_list(s: &str) -> Vec<usize> { s.split(|c: char| !c.is_ascii_digit()).filter(|t| !t.is_empty()).filter_map(|t| t.parse().ok()).collect() }

/// "[Copy(0), Edit(1, 2), Reparse(0)]" -> operations
fn parse_hops(s: &str) -> Vec<HOp> {
    let mut out = vec![];
    for part in s.trim_matches(|c| c == '[' || c == ']').split("),") {
        let p = part.trim();
        let args = parse_usize_list(p.split('(').nth(1).unwrap_or(""));
        let a = |k: usize| args.get(k).copied().unwrap_or(0);
        if p.starts_with("Copy") { out.push(HOp::Copy(a(0))); } else if p.starts_with("Edit") { out.push(HOp::Edit(a(0), a(1))); } else if p.starts_with("Reparse") { out.push(HOp::Reparse(a(0))); }
        else if p.starts_with("Walk") { out.push(HOp::Walk(a(0))); } else if p.starts_with("Delete") { out.push(HOp::Delete(a(0))); }
    }
    out
}

/// "[EditReparse(0), CopyDrop]" -> thread program
fn parse_tops(s: &str) -> Vec<TOp> {
    let mut out = vec![];
    for part in s.trim_matches(|c| c == '[' || c == ']').split(',') {
        let p = part.trim();
        let arg = parse_usize_list(p.split('(').nth(1).unwrap_or("")).first().copied().unwrap_or(0);
        if p.starts_with("EditReparse") { out.push(TOp::EditReparse(arg)); } else if p.starts_with("CopyDrop") { out.push(TOp::CopyDrop); } else if p.starts_with("EditOnly") { out.push(TOp::EditOnly(arg)); }
        else if p.starts_with("Walk") { out.push(TOp::Walk); } else if p.starts_with("Drop") { out.push(TOp::Drop); }
    }
    out
}

/// Re-execute one recorded handle history (part a) or one recorded schedule of a thread harness (part b).
pub fn replay(case: &Value) -> Vec<String> {
    let case = if case.get("kind").and_then(|k| k.as_str()) == Some("crash") { &case["case"] } else { case };
    let Some(z) = crate::zoo::by_name(case["lang"].as_str().unwrap_or("")) else { return vec![format!("unknown language in case {}", case)] };
    let info = build_info(&z);
    set_tail(z.name);
    let doc = crate::util::bytes_from_json(&case["doc"]);
    alloc::install();
    let mut msgs = vec![];
    match case["part"].as_str() {
        Some("a") => {
            let ops = parse_hops(case["history"].as_str().unwrap_or(""));
            let mut parser = Parser::new();
            parser.set_language(&info.language).unwrap();
            let mut hs = rebuild(&info, &mut parser, &doc, &[]);
            for (k, op) in ops.iter().enumerate() {
                let valid = match *op { HOp::Copy(i) | HOp::Edit(i, _) | HOp::Reparse(i) | HOp::Walk(i) | HOp::Delete(i) => i < hs.len() };
                if !valid { msgs.push(format!("ENGINE replay diverged: operation #{} {:?} names a handle that does not exist", k, op)); break; }
                let before: Vec<(u64, u64)> = hs.iter().map(snapshot).collect();
                apply_hop(&mut parser, &mut hs, op);
                let (target, mutates, removed) = match *op { HOp::Copy(i) => (i, false, false), HOp::Edit(i, _) => (i, true, false), HOp::Reparse(i) => (i, false, false), HOp::Walk(i) => (i, false, false), HOp::Delete(i) => (i, false, true) };
                let mut j_after = 0usize;
                for (j, b) in before.iter().enumerate() {
                    if removed && j == target { continue; }
                    let a = snapshot(&hs[j_after]);
                    j_after += 1;
                    if j == target && mutates { continue; }
                    if a.0 != b.0 { msgs.push(format!("other-handle-changed-internally: after {:?} handle {} changed its internal dump", op, j)); }
                    if a.1 != b.1 { msgs.push(format!("other-handle-changed-visibly: after {:?} handle {} changed what it shows", op, j)); }
                }
                println!("{:?} -> {} handles: {}", op, hs.len(), hs.iter().map(|h| h.tree.root_node().to_sexp()).collect::<Vec<_>>().join(" | "));
            }
        }
        Some("b") => {
            sched::install_hook();
            let progs: Vec<Vec<TOp>> = case["programs"].as_array().map(|a| a.iter().map(|p| parse_tops(p.as_str().unwrap_or(""))).collect()).unwrap_or_default();
            let h = Harness { doc, progs, keep_base: case["keep_base"].as_bool().unwrap_or(true) };
            let schedule: Vec<usize> = case["schedule"].as_array().map(|a| a.iter().filter_map(|x| x.as_u64()).map(|x| x as usize).collect()).unwrap_or_default();
            let expected: Vec<Vec<u64>> = h.progs.iter().map(|p| { let mut parser = Parser::new(); parser.set_language(&info.language).unwrap(); let t = parser.parse(&h.doc, None).unwrap(); run_program(&info.language, h.doc.clone(), t, p) }).collect();
            let (rr, errs) = exec_harness(&info, &h, &schedule, &expected);
            println!("programs {:?}, keep_base {}, {} scheduling points, choices {:?}", h.progs, h.keep_base, rr.trace.len(), rr.trace.iter().map(|p| p.chosen).collect::<Vec<_>>());
            for (fp, m) in errs { msgs.push(format!("{}: {}", fp, m)); }
        }
        _ => msgs.push(format!("not a C08 history or schedule case (ThreadSanitizer reports carry the report itself): {}", case.to_string().chars().take(300).collect::<String>())),
    }
    msgs
}
