//! C16: node-types.json, symbol/field tables and look-ahead sets are sound for every error-free tree.
use crate::checks::c03::{family_list, text_of};
use crate::families::{self, FamGrammar};
use crate::lang::{self, LangSpec};
use crate::run::{CheckMeta, Ctx, ShardResult};
use crate::xtree::XTree;
use serde_json::{json, Value};
use std::collections::{HashMap, HashSet};
use tree_sitter::{Language, Parser};
use tree_sitter_generate::OptLevel;

pub fn meta(tier: &str) -> CheckMeta {
    CheckMeta {
        id: "C16", level: "model_checking",
        rule: "E-box: every zoo grammar and every accepted grammar of the C03 families is generated through the CLI path (generate_parser_in_directory), which writes parser.c AND node-types.json from one run; the parser is compiled and every error-free tree over the C03 string box (families) / seeds + lexeme strings (zoo) is validated against node-types.json: type listed with the right namedness, every non-extra child under its field (or, if named and field-less, under `children`) with an allowed type directly or through the supertype chain, required => >=1, !multiple => <=1, root flag on the root type. For every symbol id and field id of every language: name/id round trips. Look-ahead: for ALL parse states s and ALL symbols t, next_state(s,t) != 0 => t listed by lookahead_iterator(s); and along every accepted token string each token's symbol is listed in the state in which it was lexed and accepted. Non-trivial = error-free trees validated.",
        assumptions: vec!["anonymous children without a field are not described by node-types.json and are therefore not checked against `children`".into()],
        exhaustive: true,
        bounds: json!({"tier": tier, "family_bounds": "as C03"}),
    }
}

pub struct NodeTypes {
    by_key: HashMap<(String, bool), Value>,
    subtypes: HashMap<String, Vec<(String, bool)>>,
}

impl NodeTypes {
    pub fn parse(json_text: &str) -> NodeTypes {
        let v: Value = serde_json::from_str(json_text).expect("node-types.json parses");
        let mut by_key = HashMap::new();
        let mut subtypes = HashMap::new();
        for e in v.as_array().unwrap() {
            let k = (e["type"].as_str().unwrap().to_string(), e["named"].as_bool().unwrap());
            if let Some(st) = e.get("subtypes").and_then(|s| s.as_array()) {
                subtypes.insert(k.0.clone(), st.iter().map(|t| (t["type"].as_str().unwrap().to_string(), t["named"].as_bool().unwrap())).collect());
            }
            by_key.insert(k, e.clone());
        }
        NodeTypes { by_key, subtypes }
    }
    fn allows(&self, types: &Value, kind: &str, named: bool, depth: usize) -> bool {
        for t in types.as_array().map(|a| a.as_slice()).unwrap_or(&[]) {
            let (tn, tnamed) = (t["type"].as_str().unwrap_or(""), t["named"].as_bool().unwrap_or(false));
            if tn == kind && tnamed == named { return true; }
            if tnamed && depth < 8 {
                if let Some(st) = self.subtypes.get(tn) {
                    let as_value = Value::Array(st.iter().map(|(a, b)| json!({"type": a, "named": b})).collect());
                    if self.allows(&as_value, kind, named, depth + 1) { return true; }
                }
            }
        }
        false
    }
}

pub fn validate_tree(nt: &NodeTypes, lang: &Language, xt: &XTree) -> Vec<(String, String)> {
    let mut errs = vec![];
    let name = |i: usize| lang.node_kind_for_id(xt.nodes[i].kind_id).unwrap_or("?").to_string();
    for (i, n) in xt.nodes.iter().enumerate() {
        let kind = name(i);
        let Some(entry) = nt.by_key.get(&(kind.clone(), n.named)) else {
            errs.push(("type-not-listed".into(), format!("node #{} kind {:?} named={} has no entry in node-types.json", i, kind, n.named)));
            continue;
        };
        if i == 0 && entry.get("root").and_then(|r| r.as_bool()) != Some(true) { errs.push(("root-flag-missing".into(), format!("root kind {:?} is not marked root", kind))); }
        let fields = entry.get("fields").and_then(|f| f.as_object()).cloned().unwrap_or_default();
        let children_spec = entry.get("children");
        let mut field_counts: HashMap<String, usize> = HashMap::new();
        let mut plain_count = 0usize;
        for &c in &n.children {
            let ch = &xt.nodes[c];
            let ck = name(c);
            if ch.extra {
                if nt.by_key.get(&(ck.clone(), ch.named)).and_then(|e| e.get("extra")).and_then(|e| e.as_bool()) != Some(true) && ch.named {
                    errs.push(("extra-not-marked".into(), format!("extra child {:?} of {:?} is not marked extra in node-types.json", ck, kind)));
                }
                continue;
            }
            if ch.field_id != 0 {
                let f = lang.field_name_for_id(ch.field_id).unwrap_or("?").to_string();
                *field_counts.entry(f.clone()).or_insert(0) += 1;
                match fields.get(&f) {
                    None => errs.push(("field-not-listed".into(), format!("{:?} has a child {:?} under field {:?} which node-types.json does not list", kind, ck, f))),
                    Some(spec) => if !nt.allows(&spec["types"], &ck, ch.named, 0) { errs.push(("field-type-not-allowed".into(), format!("{:?}.{}: child type {:?} named={} not allowed by {}", kind, f, ck, ch.named, spec["types"]))); }
                }
            } else if ch.named {
                plain_count += 1;
                match children_spec {
                    None => errs.push(("children-not-listed".into(), format!("{:?} has a named child {:?} without field but node-types.json lists no children", kind, ck))),
                    Some(spec) => if !nt.allows(&spec["types"], &ck, true, 0) { errs.push(("child-type-not-allowed".into(), format!("{:?}: child type {:?} not allowed by {}", kind, ck, spec["types"]))); }
                }
            }
        }
        for (f, spec) in &fields {
            let cnt = field_counts.get(f).copied().unwrap_or(0);
            if spec["required"].as_bool() == Some(true) && cnt == 0 { errs.push(("required-field-absent".into(), format!("{:?}: required field {:?} has no child", kind, f))); }
            if spec["multiple"].as_bool() == Some(false) && cnt > 1 { errs.push(("non-multiple-field-repeated".into(), format!("{:?}: field {:?} is not multiple but has {} children", kind, f, cnt))); }
        }
        if let Some(spec) = children_spec {
            if spec["required"].as_bool() == Some(true) && plain_count == 0 { errs.push(("required-children-absent".into(), format!("{:?}: children are required but none present", kind))); }
            if spec["multiple"].as_bool() == Some(false) && plain_count > 1 { errs.push(("non-multiple-children-repeated".into(), format!("{:?}: children not multiple but {} present", kind, plain_count))); }
        }
        if errs.len() > 6 { break; }
    }
    errs
}

/// ids of the grammar's terminal symbols, derived from the grammar JSON (string literals and token rules) plus end-of-input
pub fn terminal_ids(lang: &Language, grammar: &Value) -> Vec<u16> {
    let mut lits = HashSet::new();
    let mut aliases = HashSet::new();
    fn walk(v: &Value, lits: &mut HashSet<String>, aliases: &mut HashSet<String>) {
        match v {
            Value::Object(o) => {
                if o.get("type").and_then(|t| t.as_str()) == Some("STRING") { if let Some(s) = o.get("value").and_then(|s| s.as_str()) { lits.insert(s.to_string()); } }
                if o.get("type").and_then(|t| t.as_str()) == Some("ALIAS") { if let Some(s) = o.get("value").and_then(|s| s.as_str()) { aliases.insert(s.to_string()); } }
                for (_, x) in o { walk(x, lits, aliases); }
            }
            Value::Array(a) => for x in a { walk(x, lits, aliases); },
            _ => {}
        }
    }
    walk(&grammar["rules"], &mut lits, &mut aliases);
    let mut out = vec![0u16];
    for l in lits { if aliases.contains(&l) { continue; } let id = lang.id_for_node_kind(&l, false); if id != 0 { out.push(id); } }
    let rg = crate::deriv::RefGrammar::from_json(grammar);
    for t in &rg.token_rules { if aliases.contains(t) || t.starts_with('_') { continue; } let id = lang.id_for_node_kind(t, true); if id != 0 { out.push(id); } }
    out.sort(); out.dedup();
    out
}

pub fn check_tables(lang: &Language, grammar: &Value, name: &str, res: &mut ShardResult) {
    let case = json!({"part": "tables", "grammar": name});
    for id in 0..lang.node_kind_count() as u16 {
        res.transitions += 1;
        if !lang.node_kind_is_visible(id) && !lang.node_kind_is_supertype(id) { continue; }
        let Some(kind) = lang.node_kind_for_id(id) else { res.violation("symbol-name-missing", format!("{}: id {} has no name", name, id), case.clone()); continue };
        let named = lang.node_kind_is_named(id);
        // supertype symbols report is_named == false but are looked up as named; accept the lookup convention for them
        let back = if lang.node_kind_is_supertype(id) { lang.id_for_node_kind(kind, true) } else { lang.id_for_node_kind(kind, named) };
        if lang.node_kind_for_id(back) != Some(kind) || lang.node_kind_is_named(back) != named {
            res.violation("symbol-roundtrip", format!("{}: id {} = ({:?}, named={}) maps back to id {} = ({:?}, named={})", name, id, kind, named, back, lang.node_kind_for_id(back), lang.node_kind_is_named(back)), case.clone());
        }
    }
    for f in 1..=lang.field_count() as u16 {
        res.transitions += 1;
        match lang.field_name_for_id(f) {
            None => res.violation("field-name-missing", format!("{}: field id {} has no name", name, f), case.clone()),
            Some(n) => if lang.field_id_for_name(n).map(|x| x.get()) != Some(f) { res.violation("field-roundtrip", format!("{}: field {} {:?} maps back to {:?}", name, f, n, lang.field_id_for_name(n)), case.clone()); }
        }
    }
    // look-ahead sets: every terminal with a successor state is listed
    let terminals = terminal_ids(lang, grammar);
    for s in 0..lang.parse_state_count() as u16 {
        let Some(it) = lang.lookahead_iterator(s) else { res.violation("lookahead-iterator-missing", format!("{}: no iterator for state {}", name, s), case.clone()); continue };
        let listed: HashSet<u16> = it.collect();
        for &t in &terminals {
            res.transitions += 1;
            if lang.next_state(s, t) != 0 && !listed.contains(&t) {
                res.violation("lookahead-set-misses-symbol", format!("{}: state {} has a successor for symbol {} ({:?}) but lookahead_iterator does not list it", name, s, t, lang.node_kind_for_id(t)), case.clone());
            }
        }
    }
}

fn generate_in_dir(name: &str, grammar_json: &str) -> Result<(String, String), String> {
    let dir = lang::work_dir().join("run").join(format!("c16-{}-{}", std::process::id(), name));
    let _ = std::fs::remove_dir_all(&dir);
    std::fs::create_dir_all(dir.join("src")).unwrap();
    std::fs::write(dir.join("src").join("grammar.json"), grammar_json).unwrap();
    let mut diags = vec![];
    let r = tree_sitter_generate::generate_parser_in_directory(dir.clone(), None::<std::path::PathBuf>, Some(dir.join("src").join("grammar.json")), tree_sitter::LANGUAGE_VERSION, None, None, true, OptLevel::default(), &mut diags);
    let out = match r {
        Ok(()) => Ok((std::fs::read_to_string(dir.join("src").join("parser.c")).unwrap(), std::fs::read_to_string(dir.join("src").join("node-types.json")).unwrap())),
        Err(e) => Err(format!("{}", e)),
    };
    let _ = std::fs::remove_dir_all(&dir);
    out
}

fn symbol_for_token(lang: &Language, kind: &str) -> u16 {
    if kind.starts_with('"') { lang.id_for_node_kind(kind.trim_matches('"'), false) } else { lang.id_for_node_kind(kind, true) }
}

fn check_family(f: &FamGrammar, maxlen: usize, res: &mut ShardResult) {
    crate::case!("{}", json!({"part": "family", "grammar_id": f.id}));
    let gj = f.g.to_json();
    let Ok((c_code, nt_json)) = generate_in_dir(&f.id, &gj) else { res.count("rejected_by_generator", 1); return };
    let spec = LangSpec { name: f.g.name.clone(), grammar_json: gj, scanner_c: None };
    let l = match lang::build_from_c(&f.g.name, &c_code, &spec, OptLevel::default()) { Ok(l) => l, Err(e) => { res.violation("generated-parser-does-not-compile", format!("{}", e), json!({"grammar_id": f.id})); return; } };
    res.states += 1;
    let nt = NodeTypes::parse(&nt_json);
    check_tables(&l.language, &f.g.to_value(), &f.id, res);
    let mut parser = Parser::new();
    parser.set_language(&l.language).unwrap();
    for ix in families::token_strings(f.alphabet.len(), maxlen) {
        if families::skip_string(f, &ix) { continue; }
        let sep = if f.has_ws_extras { " " } else { "" };
        let (text, toks) = text_of(f, &ix, sep);
        crate::case!("{}", json!({"part": "family", "grammar_id": f.id, "text": crate::util::bytes_json(&text)}));
        let tree = parser.parse(&text, None).unwrap();
        res.transitions += 1;
        let xt = XTree::build(&tree);
        if xt.root_has_error() { continue; }
        res.nontrivial += 1;
        let case = json!({"part": "family", "grammar_id": f.id, "grammar": f.g.to_value(), "text": crate::util::bytes_json(&text)});
        for (fp, m) in validate_tree(&nt, &l.language, &xt) { res.violation(&fp, format!("{} on {:?}: {} [tree {}]", f.id, String::from_utf8_lossy(&text), m, xt.sexp(&l.language)), case.clone()); }
        // look-ahead along the accepted token string: leaves in document order
        let leaves: Vec<usize> = (0..xt.nodes.len()).filter(|&i| xt.nodes[i].children.is_empty() && xt.nodes[i].end > xt.nodes[i].start).collect();
        // (not for GLR grammars: there a leaf may carry the parse state of a stack version that was later dropped)
        if leaves.len() == toks.len() && f.kind != "G3" && f.kind != "G8" {
            let mut nodes = vec![];
            fn collect<'t>(n: tree_sitter::Node<'t>, out: &mut Vec<tree_sitter::Node<'t>>) { if n.child_count() == 0 { if n.end_byte() > n.start_byte() { out.push(n); } } else { for k in 0..n.child_count() { collect(n.child(k as u32).unwrap(), out); } } }
            collect(tree.root_node(), &mut nodes);
            // Each leaf records the state in which its token was lexed as the look-ahead; the token was then accepted (the
            // tree is error-free), so that state's look-ahead set must list it. (Node::next_parse_state of the previous
            // leaf is NOT that state when reductions happen in between, so it is not used.)
            for (k, leaf) in nodes.iter().enumerate() {
                let s = leaf.parse_state();
                let sym = symbol_for_token(&l.language, &toks[k].kind);
                if let Some(it) = l.language.lookahead_iterator(s) {
                    let listed: HashSet<u16> = it.collect();
                    let ok = listed.contains(&sym) || listed.iter().any(|&x| l.language.node_kind_for_id(x) == l.language.node_kind_for_id(sym));
                    if !ok { res.violation("lookahead-set-misses-accepted-token", format!("{} on {:?}: token {} {:?} was accepted in state {} but is not in that state's look-ahead set", f.id, String::from_utf8_lossy(&text), k, l.language.node_kind_for_id(sym), s), case.clone()); }
                }
            }
        }
        if res.too_many() { break; }
    }
    if res.samples.len() < 1 { res.sample(json!({"grammar_id": f.id, "node_types": serde_json::from_str::<Value>(&nt_json).unwrap()})); }
    let _ = std::fs::remove_file(&l.so_path);
}

/// G6: a field inside a hidden rule that is left-recursive through a cycle of L hidden rules (L = 1..4), so that the
/// quantity of the field on the visible parent ("multiple") is only reached after several passes of the fixed point:
///   a -> r_L '.'      r_1 -> r_L F t_1 | F t_1      r_i -> r_(i-1) t_i   (i = 2..L)      F = f:x | f:x?  | f:x g:y
/// crossed with: anonymous token t_i at every level or not, hidden rules declared before or after `a`, in chain order,
/// reverse order or rotated, and the field shape.
/// Sentences: k = 1..3 rounds of the cycle, with and without the optional part.
fn g6() -> Vec<(String, crate::gram::G, Vec<String>)> {
    use crate::gram::*;
    let toks = [";", ",", "!", "#"];
    let mut out = vec![];
    for l in 1..=4usize { for with_tokens in [true, false] { for hidden_first in [false, true] { for shape in 0..3usize { for order in 0..3usize {
        if l == 1 && order > 0 { continue; }
        let name = format!("g6_{}_{}_{}_{}_{}", l, with_tokens as u8, hidden_first as u8, shape, order);
        let fpart = || -> Value { match shape { 0 => field("f", sym("x")), 1 => seq(vec![field("f", sym("x")), opt(field("g", sym("y")))]), _ => seq(vec![field("f", sym("x")), field("g", sym("y"))]) } };
        let t = |i: usize| -> Vec<Value> { if with_tokens || i == 0 { vec![s(toks[i])] } else { vec![] } };
        let rname = |i: usize| format!("_r{}", i + 1);
        let mut hidden: Vec<(String, Value)> = vec![];
        let mut first_a = vec![sym(&rname(l - 1)), fpart()]; first_a.extend(t(0));
        let mut first_b = vec![fpart()]; first_b.extend(t(0));
        hidden.push((rname(0), choice(vec![seq(first_a), seq(first_b)])));
        for i in 1..l { let mut v = vec![sym(&rname(i - 1))]; v.extend(t(i)); hidden.push((rname(i), if v.len() == 1 { v.pop().unwrap() } else { seq(v) })); }
        // declaration order of the hidden rules: along the chain, against it, or rotated (r_1, r_L, ..., r_2): the number of
        // passes the fixed point needs depends on it
        match order { 1 => hidden.reverse(), 2 => { let tail: Vec<_> = hidden.drain(1..).rev().collect(); hidden.extend(tail); } _ => {} }
        let mut g = G::new(&name);
        let parent = ("a".to_string(), seq(vec![sym(&rname(l - 1)), s(".")]));
        // the first rule is the start rule: keep `a` reachable as the start through a wrapper when the hidden rules come first
        g = g.rule("top", sym("a"));
        if hidden_first { for (n, r) in &hidden { g = g.rule(n, r.clone()); } g = g.rule(&parent.0, parent.1.clone()); }
        else { g = g.rule(&parent.0, parent.1.clone()); for (n, r) in &hidden { g = g.rule(n, r.clone()); } }
        g = g.rule("x", s("x")).rule("y", s("y"));
        let mut docs = vec![];
        for k in 1..=3usize { for with_y in [false, true] {
            if (shape == 0 && with_y) || (shape == 2 && !with_y) { continue; }
            let mut d = String::new();
            for _ in 0..k { d.push_str("x "); if with_y { d.push_str("y "); } for i in 0..l { if with_tokens || i == 0 { d.push_str(toks[i]); d.push(' '); } } }
            d.push('.');
            docs.push(d);
        } }
        out.push((name, g, docs));
    } } } } }
    out
}

fn check_g6(name: &str, g: &crate::gram::G, docs: &[String], res: &mut ShardResult) -> Vec<String> {
    let mut msgs = vec![];
    crate::case!("{}", json!({"part": "g6", "grammar_id": name}));
    let gj = g.to_json();
    let Ok((c_code, nt_json)) = generate_in_dir(name, &gj) else { res.count("rejected_by_generator", 1); return msgs };
    let spec = LangSpec { name: g.name.clone(), grammar_json: gj, scanner_c: None };
    let l = match lang::build_from_c(&g.name, &c_code, &spec, OptLevel::default()) { Ok(l) => l, Err(e) => { res.violation("generated-parser-does-not-compile", format!("{}", e), json!({"part": "g6", "grammar_id": name})); return msgs; } };
    res.states += 1;
    res.count("g6_grammars", 1);
    let nt = NodeTypes::parse(&nt_json);
    let mut parser = Parser::new();
    parser.set_language(&l.language).unwrap();
    for d in docs {
        crate::case!("{}", json!({"part": "g6", "grammar_id": name, "text": d}));
        let tree = parser.parse(d, None).unwrap();
        res.transitions += 1;
        let xt = XTree::build(&tree);
        if xt.root_has_error() { res.count("g6_sentences_with_error", 1); continue; }
        res.nontrivial += 1;
        for (fp, m) in validate_tree(&nt, &l.language, &xt) {
            let what = format!("{} on {:?}: {} [tree {}]", name, d, m, xt.sexp(&l.language));
            msgs.push(format!("{}: {}", fp, what));
            res.violation(&fp, what, json!({"part": "g6", "grammar_id": name, "grammar": g.to_value(), "text": d}));
        }
    }
    let _ = std::fs::remove_file(&l.so_path);
    msgs
}

pub fn worker(ctx: &Ctx, res: &mut ShardResult) {
    if ctx.shard == ctx.nshards - 1 && !ctx.mini() { check_big_tables(res); }
    for (i, (name, g, docs)) in g6().iter().enumerate() {
        if !ctx.mine(i + 5) { continue; }
        check_g6(name, g, docs, res);
        if res.too_many() { return; }
    }
    let (n1, n2, n3, _) = crate::checks::c03::params(&ctx.tier);
    for (i, f) in family_list(&ctx.tier).iter().enumerate() {
        if !ctx.mine(i) { continue; }
        let n = match f.kind { "G1" => n1, "G2" => n2, "G4" | "G7" => 5.min(n1.max(4)), "G8" => 6.min(n1.max(4) + 1), "G10" => 4.min(n1.max(3)), _ => n3 };
        check_family(f, n, res);
        if res.too_many() { return; }
        if ctx.out_of_time() { res.caps.push("wall-clock budget reached".into()); return; }
    }
    // zoo grammars (with scanners, supertypes, aliases, inlined rules, extras)
    let zoo: Vec<crate::zoo::ZooLang> = crate::zoo::core_zoo().into_iter().chain(std::iter::once(crate::zoo::tmpl())).collect();
    for (zi, z) in zoo.iter().enumerate() {
        if !ctx.mine(zi + 3) { continue; }
        crate::case!("{}", json!({"part": "zoo", "lang": z.name}));
        let (c_code, nt_json) = generate_in_dir(z.name, &z.spec.grammar_json).expect("zoo generates");
        let l = lang::build_from_c(z.name, &c_code, &z.spec, OptLevel::default()).expect("zoo compiles");
        res.states += 1;
        let nt = NodeTypes::parse(&nt_json);
        check_tables(&l.language, &serde_json::from_str::<Value>(&z.spec.grammar_json).unwrap(), z.name, res);
        let mut parser = Parser::new();
        parser.set_language(&l.language).unwrap();
        for d in crate::docs::docs(z, if ctx.quick() { 3 } else { 4 }) {
            crate::case!("{}", json!({"part": "zoo", "lang": z.name, "text": crate::util::bytes_json(&d)}));
            let tree = parser.parse(&d, None).unwrap();
            res.transitions += 1;
            let xt = XTree::build(&tree);
            if xt.has_error_or_missing() { continue; }
            res.nontrivial += 1;
            for (fp, m) in validate_tree(&nt, &l.language, &xt) { res.violation(&fp, format!("{} on {:?}: {}", z.name, String::from_utf8_lossy(&d), m), json!({"part": "zoo", "lang": z.name, "text": crate::util::bytes_json(&d)})); }
            if res.too_many() { return; }
        }
    }
}

/// A grammar whose tables cross the 16-bit marks: 120 statement rules of fifteen steps over two choices of forty tokens give
/// about 1800 parse states and a `ts_small_parse_table` of more than 65 535 entries (offsets into it are 32-bit in the
/// generated map), plus 200 symbols. Only the table checks (and one sentence) run on it.
fn big_tables_grammar() -> crate::gram::G {
    use crate::gram::*;
    let mut g = G::new("bigtab").rule("source", rep(sym("stmt"))).rule("stmt", choice((0..120).map(|i| sym(&format!("s{}", i))).collect()));
    for i in 0..120 {
        let mut v = vec![s(&format!("k{}", i))];
        for j in 0..14 { v.push(sym(if j < 7 { "a" } else { "b" })); }
        g = g.rule(&format!("s{}", i), seq(v));
    }
    g.rule("a", choice((0..40).map(|j| s(&format!("t{}", j))).collect())).rule("b", choice((0..40).map(|j| s(&format!("u{}", j))).collect())).extras(vec![pat("\\s")])
}

fn check_big_tables(res: &mut ShardResult) {
    crate::case!("{}", json!({"part": "bigtab"}));
    crate::run::compiler_phase(true);
    let g = big_tables_grammar();
    let gj = g.to_json();
    let built = generate_in_dir("bigtab", &gj).ok().and_then(|(c_code, _)| {
        let over = c_code.find("ts_small_parse_table_map[]").map(|p| c_code[p..].lines().take_while(|l| !l.contains("};")).filter_map(|l| l.trim().strip_suffix(',')?.rsplit("= ").next()?.parse::<u32>().ok()).max().unwrap_or(0)).unwrap_or(0);
        lang::build_from_c("bigtab", &c_code, &LangSpec { name: "bigtab".into(), grammar_json: gj.clone(), scanner_c: None }, OptLevel::default()).ok().map(|l| (l, over))
    });
    crate::run::compiler_phase(false);
    let Some((l, last_offset)) = built else { res.violation("ENGINE-bigtab-does-not-build", "the big-table grammar could not be generated or compiled".into(), json!({"part": "bigtab"})); return };
    if last_offset <= u16::MAX as u32 { res.violation("ENGINE-bigtab-too-small", format!("largest small-table offset {}", last_offset), json!({"part": "bigtab"})); }
    res.states += 1;
    check_tables(&l.language, &g.to_value(), "bigtab", res);
    let mut parser = Parser::new();
    parser.set_language(&l.language).unwrap();
    let d = "k3 t1 t2 t3 t4 t5 t39 t1 u2 u3 u4 u5 u6 u7 u8 k119 t0 t0 t0 t0 t0 t7 t0 u0 u0 u0 u0 u0 u0 u39";
    let tree = parser.parse(d, None).unwrap();
    res.transitions += 1;
    if tree.root_node().has_error() { res.violation("rejects-string-in-language", format!("bigtab: {:?} parses with an error: {}", d, tree.root_node().to_sexp()), json!({"part": "bigtab", "text": d})); } else { res.nontrivial += 1; }
    let _ = std::fs::remove_file(&l.so_path);
}

/// Re-run one recorded case: the whole grammar of a family / G6 case (it is cheap), or one zoo document.
pub fn replay(case: &Value) -> Vec<String> {
    let case = if case.get("kind").and_then(|k| k.as_str()) == Some("crash") { &case["case"] } else { case };
    let mut r = ShardResult::new();
    match case["part"].as_str().unwrap_or("") {
        "g6" => {
            let id = case["grammar_id"].as_str().unwrap_or("");
            let Some((name, g, docs)) = g6().into_iter().find(|(n, _, _)| n == id) else { return vec![format!("unknown G6 grammar {}", id)] };
            check_g6(&name, &g, &docs, &mut r);
        }
        "family" => {
            let id = case["grammar_id"].as_str().unwrap_or("");
            let Some(f) = family_list("thorough").into_iter().find(|f| f.id == id) else { return vec![format!("unknown family grammar {}", id)] };
            let (n1, n2, n3, _) = crate::checks::c03::params("quick");
            let n = match f.kind { "G1" => n1, "G2" => n2, "G4" => 5.min(n1.max(4)), _ => n3 };
            check_family(&f, n, &mut r);
        }
        "zoo" => {
            let Some(z) = crate::zoo::by_name(case["lang"].as_str().unwrap_or("")) else { return vec!["unknown zoo language".into()] };
            let (c_code, nt_json) = generate_in_dir(z.name, &z.spec.grammar_json).expect("zoo generates");
            let l = lang::build_from_c(z.name, &c_code, &z.spec, OptLevel::default()).expect("zoo compiles");
            let nt = NodeTypes::parse(&nt_json);
            let d = crate::util::bytes_from_json(&case["text"]);
            let mut parser = Parser::new();
            parser.set_language(&l.language).unwrap();
            let xt = XTree::build(&parser.parse(&d, None).unwrap());
            println!("tree: {}", xt.sexp(&l.language));
            return validate_tree(&nt, &l.language, &xt).into_iter().map(|(f, m)| format!("{}: {}", f, m)).collect();
        }
        _ => return vec![format!("not a C16 case: {}", case)],
    }
    r.violations.iter().map(|v| format!("{}: {}", v.fingerprint, v.what)).collect()
}
