use crate::run::{CheckMeta, Ctx, ShardResult};
use serde_json::json;

pub mod c_hist;
pub mod c02;
pub mod c06;
pub mod c10;
pub mod c09;
pub mod c13;
pub mod c08;
pub mod c07;
pub mod c03;
pub mod c15;
pub mod c16;
pub mod c14;
pub mod c05;
pub mod c11;
pub mod c17;
pub mod c18;
pub mod c19;
pub mod c20;
pub mod c12;

pub fn meta(id: &str, tier: &str) -> Option<CheckMeta> {
    match id {
        "C01" | "C04" => Some(c_hist::meta(id, tier)),
        "C02" => Some(c02::meta(tier)),
        "C06" => Some(c06::meta(tier)),
        "C10" => Some(c10::meta(tier)),
        "C09" => Some(c09::meta(tier)),
        "C13" => Some(c13::meta(tier)),
        "C08" => Some(c08::meta(tier)),
        "C07" => Some(c07::meta(tier)),
        "C03" => Some(c03::meta(tier)),
        "C15" => Some(c15::meta(tier)),
        "C16" => Some(c16::meta(tier)),
        "C14" => Some(c14::meta(tier)),
        "C05" => Some(c05::meta(tier)),
        "C11" => Some(c11::meta(tier)),
        "C17" => Some(c17::meta(tier)),
        "C18" => Some(c18::meta(tier)),
        "C19" => Some(c19::meta(tier)),
        "C20" => Some(c20::meta(tier)),
        "C12" => Some(c12::meta(tier)),
        _ => None,
    }
}

pub fn master(id: &str, tier: &str, seed: u64) -> i32 {
    let Some(m) = meta(id, tier) else { println!("ENGINE-ERROR unknown check {}", id); return 2; };
    // build every zoo language once in the master so that workers find the compiled libraries
    if let Err(e) = prebuild(id) { println!("ENGINE-ERROR prebuild: {}", e); return 2; }
    crate::run::master(&m, tier, seed, &[])
}

pub fn prebuild(_id: &str) -> Result<(), String> {
    for z in crate::zoo::core_zoo().into_iter().chain(std::iter::once(crate::zoo::tmpl())).chain(std::iter::once(crate::zoo::tagl())).chain(std::iter::once(crate::zoo::corpl())) {
        crate::lang::build(&z.spec, tree_sitter_generate::OptLevel::default()).map_err(|e| format!("{}: {}", z.name, e))?;
    }
    Ok(())
}

pub fn worker(ctx: &Ctx, res: &mut ShardResult) {
    match ctx.id.as_str() {
        "C01" | "C04" => c_hist::worker(ctx, res),
        "C02" => c02::worker(ctx, res),
        "C06" => c06::worker(ctx, res),
        "C10" => c10::worker(ctx, res),
        "C09" => c09::worker(ctx, res),
        "C13" => c13::worker(ctx, res),
        "C08" => c08::worker(ctx, res),
        "C07" => c07::worker(ctx, res),
        "C03" => c03::worker(ctx, res),
        "C15" => c15::worker(ctx, res),
        "C16" => c16::worker(ctx, res),
        "C14" => c14::worker(ctx, res),
        "C05" => c05::worker(ctx, res),
        "C11" => c11::worker(ctx, res),
        "C17" => c17::worker(ctx, res),
        "C18" => c18::worker(ctx, res),
        "C19" => c19::worker(ctx, res),
        "C20" => c20::worker(ctx, res),
        "C12" => c12::worker(ctx, res),
        _ => panic!("unknown check"),
    }
}

pub fn replay(path: &str) -> i32 {
    let txt = std::fs::read_to_string(path).expect("read replay file");
    let v: serde_json::Value = serde_json::from_str(&txt).expect("replay json");
    let id = v["property"].as_str().unwrap_or("");
    println!("replaying {} [{}]: {}", id, v["fingerprint"].as_str().unwrap_or(""), v["what"].as_str().unwrap_or(""));
    let msgs = match id {
        "C01" | "C04" => c_hist::replay(id, &v["case"]),
        "C02" => c02::replay(&v["case"]),
        "C06" => c06::replay(&v["case"]),
        "C10" => c10::replay(&v["case"]),
        "C09" => c09::replay(&v["case"]),
        "C13" => c13::replay(&v["case"]),
        "C08" => c08::replay(&v["case"]),
        "C07" => c07::replay(&v["case"]),
        "C03" => c03::replay(&v["case"]),
        "C15" => c15::replay(&v["case"]),
        "C16" => c16::replay(&v["case"]),
        "C14" => c14::replay(&v["case"]),
        "C05" => c05::replay(&v["case"]),
        "C11" => c11::replay(&v["case"]),
        "C17" => c17::replay(&v["case"]),
        "C18" => c18::replay(&v["case"]),
        "C19" => c19::replay(&v["case"]),
        "C20" => c20::replay(&v["case"]),
        "C12" => c12::replay(&v["case"]),
        _ => vec![format!("no replayer for {}", id)],
    };
    let _ = json!(null);
    if msgs.is_empty() { println!("REPLAY: property holds on this case"); 0 } else { for m in msgs { println!("REPLAY-VIOLATION: {}", m); } 1 }
}
