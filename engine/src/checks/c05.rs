//! C05: query results are exactly the matches the pattern semantics define.
use crate::checks::c_hist::build_info;
use crate::qref::{self, Binding, Elem, Kind, Matcher, Pat, Quant};
use crate::run::{CheckMeta, Ctx, ShardResult};
use crate::wf::LangInfo;
use crate::xtree::XTree;
use serde_json::{json, Value};
use std::collections::{HashMap, HashSet};
use streaming_iterator::StreamingIterator;
use tree_sitter::{Parser, Query, QueryCursor, QueryErrorKind, Tree};

pub fn meta(tier: &str) -> CheckMeta {
    CheckMeta {
        id: "C05", level: "model_checking",
        rule: "E-box over queries x trees. Query family (enumerated completely from a pattern AST, per language stmts/arith/jsonish/nestf): root in {3-4 named kinds, (_), _, anonymous, (ERROR), (MISSING), (MISSING kind), (MISSING \"tok\"), supertype, supertype/subtype}; 0..2 child patterns each in {named kinds, (_), _, anonymous, extra (comment), nested one-child pattern}; optional field per child; negated field; anchors in every slot (. a, a . b, a .); one alternation in a child slot; one quantifier in {?,*,+} on a child; a capture on every pattern node. Trees: seeds + all strings of <=2 lexemes (valid and erroneous) + trees after one edit and re-parse. Oracle: an independent backtracking matcher over the explicit tree, written from the query documentation. Soundness for every query: each returned match is one of the reference bindings. Completeness for quantifier-free patterns: the returned bindings equal the reference set, each exactly once. Compile time: a rejected pattern carries an error offset <= source length, and no rejected pattern has a reference match in an error-free tree. Alternations of two and three branches in every anchored slot (alone, first and last of two children, all anchor masks). Non-trivial = (query, tree) pairs with at least one reference match.",
        assumptions: vec!["anchors adjacent to anonymous/wildcard child patterns and to quantified patterns are outside the asserted family (the documentation leaves them open)".into()],
        exhaustive: true,
        bounds: json!({"tier": tier, "max_children": 2, "tree_doc_lexemes": if tier == "thorough" { 3 } else { 2 }, "queries": "the whole family in both tiers"}),
    }
}

struct QLang { name: &'static str, roots: Vec<Kind>, child_kinds: Vec<Pat>, fields: Vec<&'static str>, supertype: Option<&'static str> }

fn nk(s: &str) -> Kind { Kind::Named(s.to_string()) }

fn qlangs() -> Vec<QLang> {
    vec![
        QLang { name: "stmts",
            roots: vec![nk("binary"), nk("call"), nk("let_stmt"), nk("block"), nk("args"), Kind::AnyNamed, Kind::Any, Kind::Anon("+".into()), Kind::Error, Kind::Missing(None), Kind::Missing(Some(("identifier".into(), true))), Kind::Missing(Some((";".into(), false))), Kind::Super("_expr".into()), Kind::SuperSub("_expr".into(), "binary".into())],
            child_kinds: vec![Pat::new(nk("identifier")), Pat::new(nk("number")), Pat::new(nk("binary")), Pat::new(Kind::AnyNamed), Pat::new(Kind::Any), Pat::new(Kind::Anon("+".into())), Pat::new(Kind::Anon(";".into())), Pat::new(nk("comment")), Pat::new(nk("name")),
                              Pat::new(nk("paren")).child(Pat::new(nk("identifier")).cap("n1")), Pat::new(nk("args")).child(Pat::new(nk("number")).cap("n1")), Pat::new(Kind::Super("_expr".into())),
                              // a supertype pattern with a child of its own, below another pattern node
                              Pat::new(Kind::Super("_expr".into())).child(Pat::new(nk("number")).cap("n1")), Pat::new(Kind::Super("_expr".into())).child(Pat::new(nk("identifier")).cap("n1"))],
            fields: vec!["left", "right", "value", "fn", "name", "stmt"], supertype: Some("_expr") },
        QLang { name: "arith",
            roots: vec![nk("binary"), nk("call"), nk("paren"), Kind::AnyNamed, Kind::Error, Kind::Missing(None)],
            child_kinds: vec![Pat::new(nk("number")), Pat::new(nk("var")), Pat::new(nk("binary")), Pat::new(Kind::AnyNamed), Pat::new(Kind::Any), Pat::new(Kind::Anon("*".into())), Pat::new(nk("unary")).child(Pat::new(nk("var")).cap("n1"))],
            fields: vec!["left", "right", "op", "fn", "arg"], supertype: None },
        QLang { name: "jsonish",
            roots: vec![nk("array"), nk("object"), nk("pair"), nk("string"), Kind::AnyNamed, Kind::Error],
            child_kinds: vec![Pat::new(nk("number")), Pat::new(nk("string")), Pat::new(nk("array")), Pat::new(Kind::AnyNamed), Pat::new(Kind::Any), Pat::new(Kind::Anon(",".into())), Pat::new(nk("pair")).child(Pat::new(nk("string")).field("key").cap("n1")), Pat::new(nk("escape"))],
            fields: vec!["key", "value"], supertype: None },
        // fields on hidden rules that stay in the tree: two productions of `stmt` begin with the same hidden rule under
        // different fields (the query analysis must keep both), `entry` nests an inner field inside a fielded hidden rule
        QLang { name: "nestf",
            roots: vec![nk("stmt"), nk("entry"), Kind::AnyNamed],
            child_kinds: vec![Pat::new(nk("word")), Pat::new(nk("number")), Pat::new(Kind::AnyNamed), Pat::new(Kind::Any), Pat::new(Kind::Anon(":".into())), Pat::new(Kind::Anon("?".into()))],
            fields: vec!["a", "b", "item", "key"], supertype: None },
    ]
}

fn can_have_children(k: &Kind) -> bool { matches!(k, Kind::Named(_) | Kind::AnyNamed | Kind::Error | Kind::Super(_) | Kind::SuperSub(_, _)) }

/// Enumerate the query family for one language.
fn family(q: &QLang) -> Vec<Pat> {
    let mut out = vec![];
    let field_opts = |n: usize| -> Vec<Option<&'static str>> { let mut v = vec![None]; for f in q.fields.iter().take(n) { v.push(Some(*f)); } v };
    for r in &q.roots {
        let root = Pat::new(r.clone()).cap("r");
        out.push(root.clone());
        if !can_have_children(r) { continue; }
        // negated field only
        for f in q.fields.iter().take(3) { let mut p = root.clone(); p.neg_fields.push(f.to_string()); out.push(p); }
        // one child
        let mut singles: Vec<Pat> = vec![];
        for ck in &q.child_kinds { for f in field_opts(q.fields.len()) {
            let mut c = ck.clone().cap("a");
            if let Some(f) = f { c = c.field(f); }
            singles.push(c);
        } }
        for c in &singles {
            for (ab, ae) in [(false, false), (true, false), (false, true), (true, true)] {
                let mut p = root.clone();
                p.children.push(Elem { anchor_before: ab, alts: vec![c.clone()] });
                p.anchor_end = ae;
                out.push(p);
            }
            // quantified child (no anchors)
            for qn in [Quant::Opt, Quant::Star, Quant::Plus] { let mut p = root.clone(); p.children.push(Elem { anchor_before: false, alts: vec![c.clone().quant(qn)] }); out.push(p); }
            // child + negated field
            let mut p = root.clone(); p.children.push(Elem { anchor_before: false, alts: vec![c.clone()] }); p.neg_fields.push(q.fields[0].to_string()); out.push(p);
        }
        // two children: kinds without fields x all anchors, and fielded pairs without anchors
        let plain: Vec<Pat> = q.child_kinds.iter().map(|c| c.clone()).collect();
        for (i, c1) in plain.iter().enumerate() { for (j, c2) in plain.iter().enumerate() {
            let c1 = rename_caps(c1.clone(), "a"); let c2 = rename_caps(c2.clone(), "b");
            for mask in 0..8u8 {
                let mut p = root.clone();
                p.children.push(Elem { anchor_before: mask & 1 != 0, alts: vec![c1.clone()] });
                p.children.push(Elem { anchor_before: mask & 2 != 0, alts: vec![c2.clone()] });
                p.anchor_end = mask & 4 != 0;
                out.push(p);
            }
            // fields on both (first two fields), no anchors
            if i < 5 && j < 5 {
                for f1 in field_opts(2) { for f2 in field_opts(2) {
                    if f1.is_none() && f2.is_none() { continue; }
                    let mut a = c1.clone(); if let Some(f) = f1 { a = a.field(f); }
                    let mut b = c2.clone(); if let Some(f) = f2 { b = b.field(f); }
                    let mut p = root.clone(); p.children.push(Elem { anchor_before: false, alts: vec![a] }); p.children.push(Elem { anchor_before: false, alts: vec![b] }); out.push(p);
                } }
            }
            // alternation in the first slot followed by a plain child
            if i < j && j < 6 {
                let mut p = root.clone();
                p.children.push(Elem { anchor_before: false, alts: vec![rename_caps(c1.clone(), "a"), rename_caps(c2.clone(), "c")] });
                out.push(p.clone());
                p.children.push(Elem { anchor_before: false, alts: vec![rename_caps(plain[0].clone(), "b")] });
                out.push(p);
            }
            // an alternation of two or three branches in every anchored position: alone, last of two children, first of two
            // (the anchors of a slot have to reach every branch of the alternation, in whatever order the branches are written)
            if i != j && i < 4 && j < 4 {
                let mut branch_lists: Vec<Vec<Pat>> = vec![vec![rename_caps(c1.clone(), "a"), rename_caps(c2.clone(), "c")]];
                for (k, c3) in plain.iter().enumerate().take(4) { if k != i && k != j {
                    branch_lists.push(vec![rename_caps(c1.clone(), "a"), rename_caps(c2.clone(), "c"), rename_caps(c3.clone(), "d")]);
                } }
                for alts in branch_lists {
                    for mask in 1..4u8 {
                        let mut p = root.clone();
                        p.children.push(Elem { anchor_before: mask & 1 != 0, alts: alts.clone() });
                        p.anchor_end = mask & 2 != 0;
                        out.push(p);
                    }
                    for mask in 1..8u8 {
                        let other = rename_caps(plain[0].clone(), "b");
                        let mut p = root.clone();
                        p.children.push(Elem { anchor_before: mask & 1 != 0, alts: vec![other.clone()] });
                        p.children.push(Elem { anchor_before: mask & 2 != 0, alts: alts.clone() });
                        p.anchor_end = mask & 4 != 0;
                        out.push(p);
                        let mut p = root.clone();
                        p.children.push(Elem { anchor_before: mask & 1 != 0, alts: alts.clone() });
                        p.children.push(Elem { anchor_before: mask & 2 != 0, alts: vec![other] });
                        p.anchor_end = mask & 4 != 0;
                        out.push(p);
                    }
                }
            }
            // an alternation whose branches accept the SAME node under different capture names (two distinct bindings per node)
            if i == j && i < 5 {
                let alts = vec![rename_caps(c1.clone(), "a"), rename_caps(c1.clone(), "c")];
                for mask in 0..4u8 {
                    let mut p = root.clone();
                    p.children.push(Elem { anchor_before: mask & 1 != 0, alts: alts.clone() });
                    p.anchor_end = mask & 2 != 0;
                    out.push(p);
                }
                let mut p = root.clone();
                p.children.push(Elem { anchor_before: false, alts: alts.clone() });
                p.children.push(Elem { anchor_before: false, alts: vec![rename_caps(plain[0].clone(), "b")] });
                out.push(p);
            }
            // quantifier on the second child
            if i < 4 && j < 4 { for qn in [Quant::Opt, Quant::Star, Quant::Plus] {
                let mut p = root.clone();
                p.children.push(Elem { anchor_before: false, alts: vec![c1.clone()] });
                p.children.push(Elem { anchor_before: false, alts: vec![c2.clone().quant(qn)] });
                out.push(p);
            } }
        } }
    }
    // the same one-child patterns with a capture on the root ONLY: which nodes carry captures decides how the cursor may
    // share, split and give up states (a state without captures below a step cannot be told from its copies)
    let mut bare = vec![];
    for p in &out {
        if p.children.len() == 1 && p.children[0].alts.len() == 1 && !p.has_quantifier() && p.neg_fields.is_empty() {
            let mut q = p.clone();
            strip_inner_captures(&mut q);
            bare.push(q);
        }
    }
    out.extend(bare);
    out
}

fn strip_inner_captures(p: &mut Pat) { for e in p.children.iter_mut() { for a in e.alts.iter_mut() { a.capture = None; strip_inner_captures(a); } } }
fn has_uncaptured_inner(p: &Pat) -> bool { p.children.iter().any(|e| e.alts.iter().any(|a| a.capture.is_none() || has_uncaptured_inner(a))) }

fn make_mandatory(p: &Pat) -> Pat {
    let mut q = p.clone();
    q.quant = match q.quant { Quant::Opt => Quant::One, Quant::Star => Quant::Plus, x => x };
    for e in q.children.iter_mut() { for a in e.alts.iter_mut() { *a = make_mandatory(a); } }
    q
}

fn rename_caps(mut p: Pat, name: &str) -> Pat {
    p.capture = Some(name.to_string());
    let mut k = 0;
    for e in p.children.iter_mut() { for a in e.alts.iter_mut() { k += 1; *a = rename_caps(a.clone(), &format!("{}{}", name, k)); } }
    p
}

pub fn supertype_fn(info: &LangInfo, st: Option<&'static str>) -> impl Fn(&XTree, usize, &str) -> bool {
    let lang = info.language.clone();
    let mut subs: HashSet<u16> = HashSet::new();
    if let Some(st) = st {
        let id = lang.id_for_node_kind(st, true);
        for &s in lang.subtypes_for_supertype(id) { subs.insert(s); }
    }
    move |xt: &XTree, i: usize, _name: &str| {
        let n = &xt.nodes[i];
        if !subs.contains(&n.grammar_id) || n.kind_id != n.grammar_id { return false; }
        // in the stmts grammar an identifier that is a direct child of fn_def or params is not an expression
        if let Some(p) = n.parent {
            let pk = lang.node_kind_for_id(xt.nodes[p].kind_id).unwrap_or("");
            // (likewise below pragma and sigil_decl: the grammar uses `identifier` there directly, not through `_expr`)
            if pk == "fn_def" || pk == "params" || pk == "pragma" || pk == "sigil_decl" || pk == "use_stmt" || pk == "path_list" { return false; }
        }
        true
    }
}

thread_local! {
    /// set by run_matches when a captured node does not look like the tree's node of the same identity (kind or extent differ)
    pub static CAPTURED_NODE_MISMATCH: std::cell::RefCell<Option<String>> = std::cell::RefCell::new(None);
}

pub fn run_matches(cursor: &mut QueryCursor, query: &Query, tree: &Tree, text: &[u8], xt: &XTree) -> Vec<Binding> {
    let names = query.capture_names();
    let id_to_idx: HashMap<usize, usize> = xt.nodes.iter().enumerate().map(|(i, n)| (n.id, i)).collect();
    let mut out = vec![];
    let mut it = cursor.matches(query, tree.root_node(), text);
    while let Some(m) = it.next() {
        let mut b: Binding = vec![];
        for c in m.captures {
            let idx = *id_to_idx.get(&c.node.id()).unwrap_or(&usize::MAX);
            // the node handed out must BE that node of the tree: same kind (aliases included), same extent
            if let Some(n) = xt.nodes.get(idx) {
                if n.kind_id != c.node.kind_id() || n.start != c.node.start_byte() || n.end != c.node.end_byte() || n.named != c.node.is_named() {
                    CAPTURED_NODE_MISMATCH.with(|m| *m.borrow_mut() = Some(format!("capture @{} is node #{} {} of the tree but the node handed out says kind {} {}..{}", names[c.index as usize], idx, xt.brief(idx), c.node.kind(), c.node.start_byte(), c.node.end_byte())));
                }
            }
            b.push((names[c.index as usize].to_string(), idx));
        }
        out.push(b);
        if out.len() > 20000 { break; }
    }
    out
}

fn case_json(lang: &str, src: &str, text: &[u8]) -> Value { json!({"lang": lang, "query": src, "text": crate::util::bytes_json(text)}) }

pub fn worker(ctx: &Ctx, res: &mut ShardResult) {
    let mut idx = 0usize;
    for ql in qlangs() {
        let z = crate::zoo::by_name(ql.name).unwrap();
        let info = build_info(&z);
        let in_st = supertype_fn(&info, ql.supertype);
        // trees
        let mut parser = Parser::new();
        parser.set_language(&info.language).unwrap();
        let mut trees: Vec<(Vec<u8>, Tree, XTree, bool)> = vec![];
        for d in crate::docs::docs(&z, if ctx.quick() { 2 } else { 3 }) {
            let t = parser.parse(&d, None).unwrap();
            let xt = XTree::build(&t);
            let clean = !xt.has_error_or_missing();
            // one edit + re-parse variant
            if d.len() > 2 && d.len() < 30 {
                let e = crate::text::Edit { start: d.len() / 2, old_len: 1, ins: b" ".to_vec() };
                let (nt, ie) = crate::text::apply(&d, &e);
                let mut old = t.clone();
                old.edit(&ie);
                let t2 = parser.parse(&nt, Some(&old)).unwrap();
                let x2 = XTree::build(&t2);
                let c2 = !x2.has_error_or_missing();
                trees.push((nt, t2, x2, c2));
            }
            trees.push((d, t, xt, clean));
        }
        let fam = family(&ql);
        let stride = if ctx.mini() { 40 } else { 1 };
        let mut cursor = QueryCursor::new();
        for (qi, p) in fam.iter().enumerate() {
            idx += 1;
            if qi % stride != 0 || !ctx.mine(idx) { continue; }
            let src = p.source();
            crate::case!("{}", case_json(ql.name, &src, b""));
            // A supertype pattern *with children* is read in two incompatible ways inside tree-sitter itself (the cursor: a subtype
            // node having those children; the analysis: the children must be subtypes); the documentation shows neither.
            let super_with_children = matches!(p.kind, Kind::Super(_) | Kind::SuperSub(_, _)) && !p.children.is_empty();
            let asserted = !p.has_anon_next_to_anchor() && !super_with_children;
            let complete = asserted && !p.has_quantifier();
            let uses_super = src.contains("_expr");
            res.states += 1;
            match Query::new(&info.language, &src) {
                Err(e) => {
                    res.count(&format!("rejected_{:?}", e.kind), 1);
                    if e.offset > src.len() { res.violation("error-offset-outside-source", format!("query {:?}: {:?} offset {} > {}", src, e.kind, e.offset, src.len()), case_json(ql.name, &src, b"")); }
                    if e.kind != QueryErrorKind::Structure { res.violation("wellformed-query-rejected", format!("query {:?} (syntactically valid, names from the grammar) rejected with {:?}: {}", src, e.kind, e.message), case_json(ql.name, &src, b"")); continue; }
                    if !asserted { continue; }
                    // an impossible pattern must not match any error-free tree
                    for (text, _, xt, clean) in &trees {
                        if !*clean { continue; }
                        res.transitions += 1;
                        let m = Matcher { xt, lang: &info.language, in_supertype: &in_st };
                        if !m.all(p).is_empty() {
                            // Known finding: the analysis rejects a pattern whose optional child can never occur, although the
                            // pattern still matches with zero occurrences. Recognised by making the optional children mandatory.
                            let strict = make_mandatory(p);
                            let strict_matches_somewhere = trees.iter().any(|(_, _, xt2, c2)| *c2 && !Matcher { xt: xt2, lang: &info.language, in_supertype: &in_st }.all(&strict).is_empty());
                            let matches_somewhere = |q: &Pat| trees.iter().any(|(_, _, xt2, c2)| *c2 && !Matcher { xt: xt2, lang: &info.language, in_supertype: &in_st }.all(q).is_empty());
                            // ... and likewise an alternation one of whose branches can never occur
                            let mut dead_branch = false;
                            for (ei, e) in p.children.iter().enumerate() {
                                if e.alts.len() < 2 { continue; }
                                for k in 0..e.alts.len() { let mut q = p.clone(); q.children[ei].alts = vec![e.alts[k].clone()]; if !matches_somewhere(&q) { dead_branch = true; } }
                            }
                            let fp = if ql.name == "nestf" && src.starts_with("(entry") && src.contains("key:") { "inner-field-of-fielded-hidden-rule-rejected" } else if p.has_quantifier() && !strict_matches_somewhere { "optional-impossible-child-rejected" } else if dead_branch { "alternation-with-impossible-branch-rejected" } else { "possible-pattern-rejected" };
                            res.violation(fp, format!("query {:?} was rejected as impossible but matches the error-free tree of {:?}", src, String::from_utf8_lossy(text)), case_json(ql.name, &src, text));
                            break;
                        }
                    }
                }
                Ok(query) => {
                    res.count("accepted", 1);
                    for (text, tree, xt, _) in &trees {
                        crate::case!("{}", case_json(ql.name, &src, text));
                        res.transitions += 1;
                        let got = run_matches(&mut cursor, &query, tree, text, xt);
                        if let Some(m) = CAPTURED_NODE_MISMATCH.with(|m| m.borrow_mut().take()) {
                            res.violation("captured-node-differs-from-tree-node", format!("query {:?} on {:?}: {}", src, String::from_utf8_lossy(text), m), case_json(ql.name, &src, text));
                        }
                        if !asserted { continue; }
                        // inside ERROR nodes the hidden supertype wrappers are unknowable from the visible tree
                        if uses_super && xt.has_error_or_missing() { continue; }
                        let m = Matcher { xt, lang: &info.language, in_supertype: &in_st };
                        let want = m.all(p);
                        let want_set = qref::distinct(&want);
                        if !want_set.is_empty() { res.nontrivial += 1; }
                        // soundness
                        for g in &got {
                            if !want_set.contains(&qref::canon(g)) {
                                res.violation("match-does-not-satisfy-pattern", format!("query {:?} on {:?}: returned binding {:?} is not a match by the documented semantics (tree {})", src, String::from_utf8_lossy(text), g, xt.sexp(&info.language)), case_json(ql.name, &src, text));
                                break;
                            }
                        }
                        if complete {
                            let got_set = qref::distinct(&got);
                            // (with uncaptured pattern nodes several assignments give one and the same binding)
                            if got_set.len() != got.len() && !has_uncaptured_inner(p) { res.violation("binding-returned-twice", format!("query {:?} on {:?}: {} matches but only {} distinct bindings", src, String::from_utf8_lossy(text), got.len(), got_set.len()), case_json(ql.name, &src, text)); }
                            if let Some(missing) = want_set.iter().find(|w| !got_set.contains(*w)) {
                                res.violation("binding-missing", format!("query {:?} on {:?}: documented semantics give binding {:?} which was not returned (returned {}; tree {})", src, String::from_utf8_lossy(text), missing, got.len(), xt.sexp(&info.language)), case_json(ql.name, &src, text));
                            }
                        }
                        res.outcome(got.len() as u64);
                        if res.too_many() { return; }
                    }
                }
            }
            if res.samples.len() < 3 && qi % 97 == 0 { res.sample(json!({"lang": ql.name, "query": src})); }
            if ctx.out_of_time() { res.caps.push("wall-clock budget reached".into()); return; }
        }
        res.count(&format!("family_size_{}", ql.name), if ctx.shard == 0 { fam.len() as u64 } else { 0 });
        // (c) composition: inside a query of two patterns each pattern returns exactly what it returns alone. The sub-family
        // has every ordered list of <= 3 negated fields on the first roots (negated-field lists of different patterns are
        // stored in one shared table), plain and fielded patterns, an alternation and a quantified child.
        let comp = composition_patterns(&ql);
        let singles: Vec<Option<Query>> = comp.iter().map(|s| Query::new(&info.language, s).ok()).collect();
        let mut alone: Vec<Vec<Vec<Binding>>> = vec![];
        for q in &singles {
            let mut per_tree = vec![];
            if let Some(q) = q { for (text, tree, xt, _) in &trees { let mut b = run_matches(&mut cursor, q, tree, text, xt); b.sort(); per_tree.push(b); } }
            alone.push(per_tree);
        }
        for (ai, a) in comp.iter().enumerate() { for (bi, b) in comp.iter().enumerate() {
            if ai == bi { continue; }
            idx += 1;
            if !ctx.mine(idx) { continue; }
            let (Some(_), Some(_)) = (&singles[ai], &singles[bi]) else { continue };
            let src = format!("{}\n{}", a, b);
            crate::case!("{}", case_json(ql.name, &src, b""));
            res.states += 1;
            let q = match Query::new(&info.language, &src) { Ok(q) => q, Err(e) => { res.violation("composition-rejected", format!("{:?} and {:?} are accepted alone but the two-pattern query is rejected: {:?}", a, b, e.kind), case_json(ql.name, &src, b"")); continue; } };
            for (ti, (text, tree, xt, _)) in trees.iter().enumerate() {
                res.transitions += 1;
                let got = run_matches_by_pattern(&mut cursor, &q, tree, text, xt);
                for (pi, which) in [(0usize, ai), (1usize, bi)] {
                    let mut g: Vec<Binding> = got.iter().filter(|(p, _)| *p == pi).map(|(_, b)| b.clone()).collect();
                    g.sort();
                    if g != alone[which][ti] {
                        res.violation("pattern-behaves-differently-inside-a-multi-pattern-query", format!("query {:?} on {:?}: pattern {} returns {:?}, alone it returns {:?}", src, String::from_utf8_lossy(text), pi, g, alone[which][ti]), case_json(ql.name, &src, text));
                        break;
                    }
                }
                if !got.is_empty() { res.nontrivial += 1; }
                if res.too_many() { return; }
            }
            if ctx.out_of_time() { res.caps.push("wall-clock budget reached".into()); return; }
        } }
        res.count(&format!("composition_patterns_{}", ql.name), if ctx.shard == 0 { comp.len() as u64 } else { 0 });
    }
}

fn composition_patterns(q: &QLang) -> Vec<String> {
    let mut out = vec![];
    let roots: Vec<String> = q.roots.iter().filter_map(|r| match r { Kind::Named(n) => Some(n.clone()), _ => None }).take(3).collect();
    let fields: Vec<&str> = q.fields.iter().copied().take(3).collect();
    for r in &roots {
        out.push(format!("({}) @r", r));
        for f in &fields { out.push(format!("({} {}: (_) @a) @r", r, f)); }
        // every ordered list of 1..3 distinct negated fields
        let n = fields.len();
        for a in 0..n { out.push(format!("({} !{}) @r", r, fields[a]));
            for b in 0..n { if b == a { continue; } out.push(format!("({} !{} !{}) @r", r, fields[a], fields[b]));
                for c in 0..n { if c == a || c == b { continue; } out.push(format!("({} !{} !{} !{}) @r", r, fields[a], fields[b], fields[c])); } } }
    }
    if let Some(r) = roots.first() { out.push(format!("[({}) (_ (_) @c)] @r", r)); out.push(format!("({} (_)* @s) @r", r)); out.push("(_) @any".to_string()); }
    out
}

fn run_matches_by_pattern(cursor: &mut QueryCursor, query: &Query, tree: &Tree, text: &[u8], xt: &XTree) -> Vec<(usize, Binding)> {
    let names = query.capture_names();
    let id_to_idx: HashMap<usize, usize> = xt.nodes.iter().enumerate().map(|(i, n)| (n.id, i)).collect();
    let mut out = vec![];
    let mut it = cursor.matches(query, tree.root_node(), text);
    while let Some(m) = it.next() {
        let mut b: Binding = vec![];
        for c in m.captures { b.push((names[c.index as usize].to_string(), *id_to_idx.get(&c.node.id()).unwrap_or(&usize::MAX))); }
        out.push((m.pattern_index, b));
        if out.len() > 20000 { break; }
    }
    out
}

pub fn replay(case: &Value) -> Vec<String> {
    let case = if case.get("kind").and_then(|k| k.as_str()) == Some("crash") { &case["case"] } else { case };
    let name = case["lang"].as_str().unwrap_or("");
    let Some(z) = crate::zoo::by_name(name) else { return vec![format!("unknown language {}", name)] };
    let info = build_info(&z);
    let src = case["query"].as_str().unwrap_or("");
    let text = crate::util::bytes_from_json(&case["text"]);
    let mut parser = Parser::new();
    parser.set_language(&info.language).unwrap();
    let tree = parser.parse(&text, None).unwrap();
    let xt = XTree::build(&tree);
    println!("tree: {}", tree.root_node().to_sexp());
    for (i, n) in xt.nodes.iter().enumerate() { println!("  #{} {} {}", i, info.language.node_kind_for_id(n.kind_id).unwrap_or("?"), xt.brief(i)); }
    match Query::new(&info.language, src) {
        Err(e) => vec![format!("query rejected: {:?} at {}", e.kind, e.offset)],
        Ok(q) => {
            let mut c = QueryCursor::new();
            for b in run_matches(&mut c, &q, &tree, &text, &xt) { println!("match: {:?}", b); }
            let env = crate::checks::c11::Env::new(&tree, &text, &xt);
            for cpt in env.captures(&mut c, &q) { println!("capture: {:?}", cpt); }
            vec![]
        }
    }
}
