//! C18: tags describe the source consistently (ranges, lines, columns, docs, locals).
use crate::run::{CheckMeta, Ctx, ShardResult};
use crate::text;
use crate::xtree::XTree;
use serde_json::{json, Value};
use tree_sitter::Parser;
use tree_sitter_tags::{TagsConfiguration, TagsContext};

pub fn meta(tier: &str) -> CheckMeta {
    CheckMeta {
        id: "C18", level: "model_checking",
        rule: "E-box: language `tagl` (functions, classes, calls, lets, doc comments, Unicode identifiers) with a tags query (doc capture with #strip! and #select-adjacent!, an @ignore pattern, #is-not? local) and a locals query; sources = seeds + all strings of <=k lexemes (valid and erroneous) + line families: 1..4 calls on one line with 0/1/2/3/4-byte characters placed before and inside names in every position, lines of 170..190 bytes with a multi-byte character straddling byte 180, CRLF lines; ONE TagsContext reused. Oracle, recomputed from the source bytes and our own evaluation of which nodes are tagged: the set of tags (by name node) equals the expected set (definitions of functions/classes, non-local non-ignored calls); name_range within range within the text; line_range = trimmed line containing the name, cut at 180 bytes on a character boundary; span = the name's row/column; utf16_column_range = UTF-16 length of the line prefix and of the name, recomputed from scratch for every tag; docs = stripped text of the adjacent doc comments. A lambda's body is a reference and the last token of its scope. Non-trivial = sources that produce at least one tag.",
        assumptions: vec!["a name is local if an enclosing scope holds a definition of the same text that starts before it".into()],
        exhaustive: true,
        bounds: json!({"tier": tier, "lexeme_strings_k": if tier == "quick" { 4 } else { 5 }}),
    }
}

const TAGS_QUERY: &str = r#"
((call fn: (ident) @ignore) (#eq? @ignore "skip"))
(
  [(comment) (block_comment)]* @doc
  .
  (fn_def name: (ident) @name) @definition.function
  (#strip! @doc "^#\\s*")
  (#select-adjacent! @doc @definition.function)
)
(class_def name: (ident) @name body: (block (fn_def) .)) @definition.class
((call fn: (ident) @name) @reference.call (#is-not? local))
((lambda body: (ident) @name) @reference.call (#is-not? local))
"#;
const LOCALS_QUERY: &str = r#"
(fn_def) @local.scope
(block) @local.scope
(params (ident) @local.definition)
(let name: (ident) @local.definition)
(lambda) @local.scope
(lambda param: (ident) @local.definition)
"#;

fn case_json(src: &[u8]) -> Value { json!({"source": crate::util::bytes_json(src)}) }

fn utf16_len(b: &[u8]) -> usize { String::from_utf8_lossy(b).chars().map(|c| c.len_utf16()).sum() }

#[derive(Debug, Clone, PartialEq)]
struct Exp { name: (usize, usize), range: (usize, usize), is_def: bool, kind: &'static str, docs: Option<String> }

fn expected(language: &tree_sitter::Language, src: &[u8], xt: &XTree) -> Vec<Exp> {
    let kind = |i: usize| language.node_kind_for_id(xt.nodes[i].kind_id).unwrap_or("?");
    let fname = |i: usize| if xt.nodes[i].field_id != 0 { language.field_name_for_id(xt.nodes[i].field_id) } else { None };
    let child_by_field = |i: usize, f: &str| xt.nodes[i].children.iter().copied().find(|&c| fname(c) == Some(f));
    let subtree_has_error = |i: usize| { let mut st = vec![i]; while let Some(j) = st.pop() { if xt.nodes[j].is_error || xt.nodes[j].missing { return true; } st.extend_from_slice(&xt.nodes[j].children); } false };
    // local definitions: (innermost scope node, text, start)
    let scope_of = |i: usize| -> usize { let mut p = xt.nodes[i].parent; while let Some(q) = p { if kind(q) == "block" || kind(q) == "fn_def" || kind(q) == "lambda" { return q; } p = xt.nodes[q].parent; } 0 };
    let mut defs: Vec<(usize, &[u8], usize)> = vec![];
    for i in 0..xt.nodes.len() {
        if kind(i) != "ident" { continue; }
        let Some(p) = xt.nodes[i].parent else { continue };
        if kind(p) == "params" || (kind(p) == "let" && fname(i) == Some("name")) || (kind(p) == "lambda" && fname(i) == Some("param")) { defs.push((scope_of(i), &src[xt.nodes[i].start..xt.nodes[i].end], xt.nodes[i].start)); }
    }
    let mut out = vec![];
    for i in 0..xt.nodes.len() {
        let n = &xt.nodes[i];
        match kind(i) {
            "fn_def" | "class_def" => {
                let Some(nm) = child_by_field(i, "name") else { continue };
                if kind(nm) != "ident" || subtree_has_error(nm) || xt.nodes[nm].missing { continue; }
                let mut docs = None;
                if kind(i) == "fn_def" {
                    // comments that immediately precede the definition among its siblings, adjacent by rows
                    if let Some(p) = n.parent {
                        let sibs = &xt.nodes[p].children;
                        let pos = sibs.iter().position(|&s| s == i).unwrap();
                        let mut start_row = n.sp.row;
                        let mut picked: Vec<usize> = vec![];
                        let mut k = pos;
                        while k > 0 {
                            let c = sibs[k - 1];
                            if kind(c) != "comment" && kind(c) != "block_comment" { break; }
                            if xt.nodes[c].ep.row + 1 >= start_row { picked.push(c); start_row = xt.nodes[c].sp.row; k -= 1; } else { break; }
                        }
                        picked.reverse();
                        if !picked.is_empty() {
                            let re = regex::Regex::new("^#\\s*").unwrap();
                            let parts: Vec<String> = picked.iter().filter_map(|&c| std::str::from_utf8(&src[xt.nodes[c].start..xt.nodes[c].end]).ok().map(|t| re.replace_all(t, "").to_string())).collect();
                            if !parts.is_empty() { docs = Some(parts.join("\n")); }
                        }
                    }
                }
                let nn = &xt.nodes[nm];
                if kind(i) == "class_def" {
                    // the class pattern demands that the body's last named child is a function (so that the class tag is
                    // completed after the tags inside its body, out of position order)
                    let Some(body) = child_by_field(i, "body") else { continue };
                    if kind(body) != "block" { continue; }
                    let last_named = xt.nodes[body].children.iter().copied().filter(|&c| xt.nodes[c].named).last();
                    if last_named.map(|c| kind(c) == "fn_def").unwrap_or(false) == false { continue; }
                }
                out.push(Exp { name: (nn.start, nn.end), range: (n.start.min(nn.start), n.end.max(nn.end)), is_def: true, kind: if kind(i) == "fn_def" { "function" } else { "class" }, docs });
            }
            "call" | "lambda" => {
                let Some(nm) = child_by_field(i, if kind(i) == "call" { "fn" } else { "body" }) else { continue };
                if kind(nm) != "ident" || xt.nodes[nm].missing || subtree_has_error(nm) { continue; }
                let nn = &xt.nodes[nm];
                let name = &src[nn.start..nn.end];
                if name == b"skip" && kind(i) == "call" { continue; }
                // local?
                let mut scopes = vec![];
                let mut p = nn.parent;
                while let Some(q) = p { if kind(q) == "block" || kind(q) == "fn_def" || kind(q) == "lambda" { scopes.push(q); } p = xt.nodes[q].parent; }
                scopes.push(0);
                if scopes.iter().any(|&s| defs.iter().any(|d| d.0 == s && d.1 == name && d.2 < nn.start)) { continue; }
                out.push(Exp { name: (nn.start, nn.end), range: (n.start.min(nn.start), n.end.max(nn.end)), is_def: false, kind: "call", docs: None });
            }
            _ => {}
        }
    }
    out.sort_by_key(|e| e.name);
    out
}

fn line_range_ref(src: &[u8], name_start: usize) -> (usize, usize) {
    let true_start = src[..name_start].iter().rposition(|&b| b == b'\n').map(|p| p + 1).unwrap_or(0);
    let mut s = true_start;
    while s < src.len() && src[s].is_ascii_whitespace() { s += 1; }
    let line_end = src[s..].iter().position(|&b| b == b'\n').map(|p| s + p).unwrap_or(src.len());
    let mut e = line_end.min(s + 180);
    if e < line_end { while e > s && (src[e] & 0xC0) == 0x80 { e -= 1; } }
    while e > s && src[e - 1].is_ascii_whitespace() { e -= 1; }
    (s, e)
}

fn check_source(ctxt: &mut TagsContext, cfg: &TagsConfiguration, language: &tree_sitter::Language, src: &[u8], res: &mut ShardResult) {
    crate::case!("{}", case_json(src));
    res.transitions += 1;
    let fail = |res: &mut ShardResult, fp: &str, msg: String| res.violation(fp, format!("source {:?}: {}", String::from_utf8_lossy(src), msg), case_json(src));
    let tags: Vec<tree_sitter_tags::Tag> = match ctxt.generate_tags(cfg, src, None) {
        Err(e) => { fail(res, "generate-tags-error", format!("{:?}", e)); return; }
        Ok((it, _)) => { let mut v = vec![]; for t in it { match t { Ok(t) => v.push(t), Err(e) => { fail(res, "generate-tags-error", format!("{:?}", e)); return; } } if v.len() > 10000 { break; } } v }
    };
    let mut parser = Parser::new();
    parser.set_language(language).unwrap();
    let tree = parser.parse(src, None).unwrap();
    let xt = XTree::build(&tree);
    let want = expected(language, src, &xt);
    if !tags.is_empty() { res.nontrivial += 1; }
    res.outcome(tags.len() as u64);
    // per-tag facts, recomputed from the bytes
    for t in &tags {
        let nr = (t.name_range.start, t.name_range.end);
        if t.range.start == usize::MAX { fail(res, "ignored-tag-emitted", format!("an @ignore placeholder tag for name range {:?} was returned", nr)); continue; }
        if !(t.range.start <= nr.0 && nr.1 <= t.range.end && t.range.end <= src.len()) { fail(res, "tag-ranges-not-nested", format!("name {:?} range {:?} len {}", nr, t.range, src.len())); continue; }
        let lr = line_range_ref(src, nr.0);
        if (t.line_range.start, t.line_range.end) != lr { fail(res, "line-range", format!("tag {:?}: line_range {:?}, the trimmed line (cut at 180 bytes on a character boundary) is {:?}", nr, t.line_range, lr)); }
        let (sp, ep) = (text::point_at(src, nr.0), text::point_at(src, nr.1));
        if t.span.start != sp || t.span.end != ep { fail(res, "span", format!("tag {:?}: span {:?} expected {:?}..{:?}", nr, t.span, sp, ep)); }
        let line_start = nr.0 - sp.column;
        let (u0, u1) = (utf16_len(&src[line_start..nr.0]), utf16_len(&src[line_start..nr.0]) + utf16_len(&src[nr.0..nr.1]));
        if (t.utf16_column_range.start, t.utf16_column_range.end) != (u0, u1) { fail(res, "utf16-column-range", format!("tag {:?}: utf16 columns {:?}, recomputed from the line prefix {}..{}", nr, t.utf16_column_range, u0, u1)); }
    }
    // the set of tags
    let mut got: Vec<(usize, usize)> = tags.iter().filter(|t| t.range.start != usize::MAX).map(|t| (t.name_range.start, t.name_range.end)).collect();
    got.sort();
    let wantn: Vec<(usize, usize)> = want.iter().map(|e| e.name).collect();
    if got != wantn {
        let extra: Vec<_> = got.iter().filter(|g| !wantn.contains(g)).collect();
        let missing: Vec<_> = wantn.iter().filter(|w| !got.contains(w)).collect();
        fail(res, if !extra.is_empty() { "unexpected-tag" } else { "missing-tag" }, format!("tags for names {:?}, expected {:?} (unexpected {:?}, missing {:?}); tree {}", got, wantn, extra, missing, xt.sexp(language)));
    } else {
        for e in &want {
            let t = tags.iter().find(|t| (t.name_range.start, t.name_range.end) == e.name).unwrap();
            if t.is_definition != e.is_def || cfg.syntax_type_name(t.syntax_type_id) != e.kind { fail(res, "tag-kind", format!("tag {:?}: is_definition={} type {:?}, expected {} {:?}", e.name, t.is_definition, cfg.syntax_type_name(t.syntax_type_id), e.is_def, e.kind)); }
            if (t.range.start, t.range.end) != e.range { fail(res, "tag-range", format!("tag {:?}: range {:?} expected {:?}", e.name, t.range, e.range)); }
            if t.docs != e.docs { fail(res, "docs", format!("tag {:?}: docs {:?} expected {:?}", e.name, t.docs, e.docs)); }
        }
    }
}

fn line_families() -> Vec<Vec<u8>> {
    let mut out = vec![];
    let pads = ["", "é", "☃", "😀", "a"];
    let names = ["f", "é", "x☃", "g😀h", "ab"];
    // 1..3 calls on one line, every combination of a padding comment before each and a name shape
    for n in 1..=3usize {
        let total = (pads.len() * names.len()).pow(n as u32);
        for code in 0..total {
            let mut c = code;
            let mut line = String::new();
            for _ in 0..n {
                let v = c % (pads.len() * names.len()); c /= pads.len() * names.len();
                let (p, nm) = (pads[v % pads.len()], names[v / pads.len()]);
                if !p.is_empty() { line.push_str(&format!("/*{}*/ ", p)); }
                line.push_str(&format!("{}(); ", nm));
            }
            out.push(line.clone().into_bytes());
            if code % 7 == 0 { out.push(format!("x();\r\n  {}\r\ny();", line).into_bytes()); }
        }
    }
    // a class whose tag is completed after the tags inside its body, all on one line, with multi-byte text before the names
    for p1 in pads { for nm in names { for p2 in pads { for inner in names {
        let pre = if p1.is_empty() { String::new() } else { format!("/*{}*/ ", p1) };
        let mid = if p2.is_empty() { String::new() } else { format!("/*{}*/ ", p2) };
        out.push(format!("{}class {} {{ {}{}(); fn m() {{}} }} z();", pre, nm, mid, inner).into_bytes());
    } } } }
    // long lines: a multi-byte character straddling byte 180 of the trimmed line
    for total in 170..=190usize {
        for ch in ["é", "☃", "😀"] {
            for lead in ["", "  "] {
                let mut line = String::from(lead);
                line.push_str("f(); /*");
                while line.len() - lead.len() < total { line.push('a'); }
                line.push_str(ch);
                line.push_str("aaaa*/ g();");
                out.push(line.clone().into_bytes());
                out.push(format!("h();\n{}\nk();", line).into_bytes());
            }
        }
    }
    out
}

pub fn worker(ctx: &Ctx, res: &mut ShardResult) {
    let z = crate::zoo::tagl();
    let l = crate::lang::build(&z.spec, tree_sitter_generate::OptLevel::default()).expect("tagl builds");
    let cfg = TagsConfiguration::new(l.language.clone(), TAGS_QUERY, LOCALS_QUERY).expect("tags configuration");
    let mut ctxt = TagsContext::new();
    let k = if ctx.mini() { 1 } else if ctx.quick() { 4 } else { 5 };
    let mut docs = crate::docs::docs(&z, k);
    docs.extend(line_families());
    for (i, d) in docs.iter().enumerate() {
        if !ctx.mine(i) { continue; }
        res.states += 1;
        check_source(&mut ctxt, &cfg, &l.language, d, res);
        if res.too_many() { return; }
        if i % 1000 == 0 && ctx.out_of_time() { res.caps.push("wall-clock budget reached".into()); return; }
    }
    res.sample(case_json(b"# doc\nfn f(a, b) { a(); g(b); }"));
}

pub fn replay(case: &Value) -> Vec<String> {
    let case = if case.get("kind").and_then(|k| k.as_str()) == Some("crash") { &case["case"] } else { case };
    let z = crate::zoo::tagl();
    let l = crate::lang::build(&z.spec, tree_sitter_generate::OptLevel::default()).expect("tagl builds");
    let cfg = TagsConfiguration::new(l.language.clone(), TAGS_QUERY, LOCALS_QUERY).expect("tags configuration");
    let mut ctxt = TagsContext::new();
    let src = crate::util::bytes_from_json(&case["source"]);
    let mut r = ShardResult::new();
    check_source(&mut ctxt, &cfg, &l.language, &src, &mut r);
    r.violations.iter().map(|v| format!("{}: {}", v.fingerprint, v.what)).collect()
}
