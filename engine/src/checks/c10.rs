//! C10: Tree::edit keeps every untouched node in sync with the new text.
use crate::checks::c_hist::build_info;
use crate::run::{CheckMeta, Ctx, ShardResult};
use crate::text::{self, Edit};
use crate::wf::LangInfo;
use crate::xtree::{self, XTree};
use serde_json::{json, Value};
use std::collections::HashSet;
use tree_sitter::{InputEdit, Parser, Point, Range, Tree};

pub fn params(tier: &str) -> Vec<(usize, usize)> {
    // passes of (lexeme-string length k for documents, edit-sequence depth)
    if tier == "mini" { vec![(1, 1)] } else if tier == "quick" { vec![(3, 1), (1, 2)] } else { vec![(4, 1), (2, 2), (1, 3)] }
}

pub fn deep_doc_limit(tier: &str, depth: usize) -> usize { if tier == "thorough" { if depth >= 3 { 5 } else { 12 } } else { 4 } }

pub fn meta(tier: &str) -> CheckMeta {
    let passes = params(tier);
    let (k, d) = (passes[0].0, passes.last().unwrap().1);
    CheckMeta {
        id: "C10", level: "model_checking",
        rule: "E-box + E-hist: for every tree (seeds + all strings of <=k lexemes per zoo language, valid and erroneous) and EVERY edit (start, old_len, inserted in {'', 'x', 'xy', LF, 'x LF y', 15/16/17 x LF}) with start+old_len <= len, and BFS over sequences of such edits without re-parsing (state key = internal tree hash, hook H2): lock-step comparison of the tree before and after Tree::edit against the text model (nodes ending before keep their range, nodes starting after are shifted to the model's bytes and points, overlapping nodes and all their ancestors report has_changes), plus Node::edit, InputEdit::edit_point/edit_range and Tree::included_ranges under the same mapping. Non-trivial = edit that overlaps at least one non-root node.",
        assumptions: vec!["zero-width nodes on an edit boundary: only containment/ordering is asserted (the statement does not fix them)".into()],
        exhaustive: true,
        bounds: json!({"passes_(doc_lexemes_k,edit_depth)": passes, "max_doc_lexemes_k": k, "max_edit_sequence_depth": d, "max_start_doc_bytes_for_depth_2_and_3": [deep_doc_limit(tier, 2), deep_doc_limit(tier, 3)], "all_deletion_lengths_up_to_bytes": 12, "deletion_lengths_beyond": [0, 1, 2, 5, 15, 16, 17], "seed_sub_box": "depth+1 on seeds of language #(seed mod N)"}),
    }
}

fn case_json(lang: &str, doc: &[u8], path: &[Edit]) -> Value {
    json!({"lang": lang, "doc": crate::util::bytes_json(doc), "edits": path.iter().map(|e| e.to_json()).collect::<Vec<_>>()})
}

// "", one and two characters, a line break, text spanning lines, and runs of 15/16/17 line breaks (the row field of an
// inline leaf is 4 bits wide)
const INSERTS: [&[u8]; 8] = [b"", b"x", b"xy", b"\n", b"x\ny", b"\n\n\n\n\n\n\n\n\n\n\n\n\n\n\n", b"\n\n\n\n\n\n\n\n\n\n\n\n\n\n\n\n", b"\n\n\n\n\n\n\n\n\n\n\n\n\n\n\n\n\n"];

fn edits_for(len: usize) -> Vec<Edit> {
    let mut v = vec![];
    let lens: Vec<usize> = if len <= 12 { (0..=len).collect() } else { vec![0, 1, 2, 5, 15, 16, 17] };
    for start in 0..=len {
        for &ol in &lens {
            if start + ol > len { continue; }
            for ins in INSERTS {
                if ol == 0 && ins.is_empty() { continue; }
                v.push(Edit { start, old_len: ol, ins: ins.to_vec() });
            }
        }
    }
    v
}

/// Expected image of position p (None = unconstrained beyond lying in [start, new_end]); Some((byte, exact))
fn map_pos(e: &Edit, p: usize) -> (Option<usize>, Option<usize>) {
    // returns (allowed value A, allowed value B)
    let old_end = e.start + e.old_len;
    let delta = e.ins.len() as isize - e.old_len as isize;
    if p < e.start { (Some(p), None) }
    else if p == e.start && e.old_len > 0 { (Some(p), None) }
    else if p == e.start { (Some(p), Some((p as isize + delta) as usize)) }
    else if p >= old_end { (Some((p as isize + delta) as usize), None) }
    else { (None, None) }
}

fn check_mapped(what: &str, e: &Edit, new_text: &[u8], p_old: usize, got_byte: usize, got_point: Point, check_point: bool) -> Option<String> {
    let (a, b) = map_pos(e, p_old);
    match (a, b) {
        (None, None) => {
            if got_byte < e.start || got_byte > e.start + e.ins.len() { return Some(format!("{}: position {} inside the replaced region mapped to {} outside [{}, {}]", what, p_old, got_byte, e.start, e.start + e.ins.len())); }
        }
        _ => {
            let ok = a == Some(got_byte) || b == Some(got_byte);
            if !ok { return Some(format!("{}: position {} mapped to byte {} but the text model gives {:?}/{:?}", what, p_old, got_byte, a, b)); }
            if check_point && got_byte <= new_text.len() {
                let want = text::point_at(new_text, got_byte);
                if want != got_point { return Some(format!("{}: position {} -> byte {} has point {:?} but the new text gives {:?}", what, p_old, got_byte, got_point, want)); }
            }
        }
    }
    None
}

/// Compare tree before (`o`) and after (`n`) one Tree::edit. `old_text` is the text `o` was in sync with (for nodes without has_changes).
pub fn check_edit(o: &XTree, n: &XTree, e: &Edit, new_text: &[u8]) -> Vec<(String, String)> {
    let mut errs: Vec<(String, String)> = vec![];
    let mut fail = |fp: &str, m: String| { if errs.iter().filter(|(f, _)| f == fp).count() < 2 { errs.push((fp.to_string(), m)); } };
    if o.nodes.len() != n.nodes.len() { fail("shape-changed", format!("edit changed the number of nodes {} -> {}", o.nodes.len(), n.nodes.len())); return errs; }
    let old_end = e.start + e.old_len;
    let delta = e.ins.len() as isize - e.old_len as isize;
    let pure_insertion = e.old_len == 0;
    for i in 0..o.nodes.len() {
        let a = &o.nodes[i];
        let b = &n.nodes[i];
        if a.kind_id != b.kind_id || a.children.len() != b.children.len() { fail("shape-changed", format!("node #{} changed kind/arity", i)); break; }
        if b.start > b.end { fail("inverted-node", format!("node #{} {}", i, n.brief(i))); }
        if let Some(p) = b.parent { if !n.nodes[p].has_changes && b.has_changes { fail("has-changes-not-propagated", format!("node #{} has_changes but its parent #{} does not", i, p)); } }
        if a.start == a.end { continue; } // zero-width: sanity only
        let trusted_points = !a.has_changes;
        if a.end < e.start || (a.end == e.start && !pure_insertion) {
            // ends before the change: keeps byte and point range
            if b.start != a.start || b.end != a.end { fail("node-before-edit-moved", format!("node #{} {} ended before the edit but became {}", i, o.brief(i), n.brief(i))); }
            else if trusted_points && (b.sp != a.sp || b.ep != a.ep) { fail("node-before-edit-points", format!("node #{} {} -> {}", i, o.brief(i), n.brief(i))); }
        } else if a.end == e.start && pure_insertion {
            if b.start != a.start || !(b.end == a.end || b.end == a.end + e.ins.len()) { fail("node-touching-insertion", format!("node #{} {} -> {}", i, o.brief(i), n.brief(i))); }
        } else if a.start >= old_end && !(a.start == e.start && pure_insertion) {
            // starts after the change: shifted, covering the same characters, with the row/column of the new text
            let ws = (a.start as isize + delta) as usize;
            let we = (a.end as isize + delta) as usize;
            if b.start != ws || b.end != we { fail("node-after-edit-not-shifted", format!("node #{} {} should be shifted to {}..{} but is {}", i, o.brief(i), ws, we, n.brief(i))); }
            else if trusted_points && we <= new_text.len() {
                let (sp, ep) = (text::point_at(new_text, ws), text::point_at(new_text, we));
                if b.sp != sp || b.ep != ep { fail("node-after-edit-points", format!("node #{} {} should have points {:?}-{:?}", i, n.brief(i), sp, ep)); }
            }
        } else if a.start == e.start && pure_insertion && a.start >= old_end {
            // insertion exactly at the node's start: either the node is shifted, or it absorbs the text
            let shifted = b.start == a.start + e.ins.len() && b.end == a.end + e.ins.len();
            let absorbed = b.start == a.start && b.end == a.end + e.ins.len();
            if !shifted && !absorbed { fail("node-at-insertion-point", format!("node #{} {} -> {}", i, o.brief(i), n.brief(i))); }
            if absorbed && !b.has_changes { fail("overlapping-node-without-has-changes", format!("node #{} absorbed the insertion but has_changes is false", i)); }
        }
        // look-ahead rule: a node that ends at or before the edit but whose look-ahead bytes reach past the edit's start
        if a.end <= e.start && a.end + a.lookahead as usize > e.start && !a.has_changes {
            let mut k = Some(i);
            while let Some(j) = k {
                if !n.nodes[j].has_changes { fail("lookahead-overlap-without-has-changes", format!("node #{} {} look-ahead {} reaches the edit, but #{} reports has_changes=false", i, o.brief(i), a.lookahead, j)); break; }
                k = n.nodes[j].parent;
            }
        }
        // overlap rule
        let overlaps = if pure_insertion { a.start < e.start && e.start < a.end } else { a.start < old_end && a.end > e.start };
        if overlaps {
            let mut k = Some(i);
            while let Some(j) = k {
                if !n.nodes[j].has_changes { fail("overlapping-node-without-has-changes", format!("node #{} {} overlaps the edit, but #{} reports has_changes=false", i, o.brief(i), j)); break; }
                k = n.nodes[j].parent;
            }
        }
    }
    errs
}

fn check_standalone(tree_before: &Tree, o: &XTree, n: &XTree, e: &Edit, ie: &InputEdit, new_text: &[u8], fail: &mut dyn FnMut(&str, String)) {
    // Node::edit moves the node's start by the same mapping
    let mut nodes = vec![];
    fn collect<'t>(n: tree_sitter::Node<'t>, out: &mut Vec<tree_sitter::Node<'t>>) { out.push(n); for k in 0..n.child_count() { if let Some(c) = n.child(k as u32) { collect(c, out); } } }
    collect(tree_before.root_node(), &mut nodes);
    if nodes.len() == o.nodes.len() {
        for (i, nd) in nodes.iter().enumerate() {
            let mut m = *nd;
            m.edit(ie);
            let trusted = !o.nodes[i].has_changes;
            if let Some(msg) = check_mapped(&format!("Node::edit on #{}", i), e, new_text, o.nodes[i].start, m.start_byte(), m.start_position(), trusted) { fail("node-edit", msg); }
            // "the same mapping": a node that began strictly inside the replaced text may legitimately land anywhere in the
            // inserted text as far as the text model goes, but Node::edit on the held node and Tree::edit on the tree have to
            // agree on where
            if o.nodes[i].start > e.start && o.nodes[i].start < e.start + e.old_len && n.nodes.len() == o.nodes.len() && (m.start_byte() != n.nodes[i].start || m.start_position() != n.nodes[i].sp) {
                fail("node-edit-disagrees-with-tree-edit", format!("node #{} began at {} inside the replaced text {}..{}: Node::edit moves it to {} {:?}, Tree::edit to {} {:?}", i, o.nodes[i].start, e.start, e.start + e.old_len, m.start_byte(), m.start_position(), n.nodes[i].start, n.nodes[i].sp));
            }
        }
    }
    // points and ranges at every position of the old text
    let old_len = (new_text.len() + e.old_len) - e.ins.len();
    // reconstruct old text positions' points through the inverse: we only need old points, which the caller's old text gives
    for p in 0..=old_len { let _ = p; }
}

pub fn explore(ctx: &Ctx, info: &LangInfo, doc: &[u8], depth: usize, res: &mut ShardResult) {
    let mut parser = Parser::new();
    parser.set_language(&info.language).unwrap();
    crate::case!("{}", case_json(&info.name, doc, &[]));
    let t0 = parser.parse(doc, None).unwrap();
    let mut seen: HashSet<(u64, u64)> = HashSet::new();
    seen.insert((crate::util::fnv(doc), xtree::internal_hash(&t0)));
    res.states += 1;
    let mut frontier: std::collections::VecDeque<(Vec<u8>, Tree, Vec<Edit>)> = Default::default();
    frontier.push_back((doc.to_vec(), t0, vec![]));
    let mut sampled = false;
    while let Some((text, tree, path)) = frontier.pop_front() {
        if path.len() >= depth { continue; }
        let ox = XTree::build(&tree);
        for e in edits_for(text.len()) {
            let (new_text, ie) = text::apply(&text, &e);
            let mut full = path.clone();
            full.push(e.clone());
            crate::case!("{}", case_json(&info.name, doc, &full));
            let mut edited = tree.clone();
            edited.edit(&ie);
            res.transitions += 1;
            let nx = XTree::build(&edited);
            let mut errs = check_edit(&ox, &nx, &e, &new_text);
            {
                let mut fail = |fp: &str, m: String| { if errs.iter().filter(|(f, _)| f == fp).count() < 2 { errs.push((fp.to_string(), m)); } };
                check_standalone(&tree, &ox, &nx, &e, &ie, &new_text, &mut fail);
                // stand-alone point and range functions at every old position
                for p in 0..=text.len() {
                    let mut pt = text::point_at(&text, p);
                    let mut b = p;
                    ie.edit_point(&mut pt, &mut b);
                    if let Some(m) = check_mapped("InputEdit::edit_point", &e, &new_text, p, b, pt, true) { fail("edit-point", m); }
                    for q in [p, text.len()] {
                        if q < p { continue; }
                        let mut r = Range { start_byte: p, end_byte: q, start_point: text::point_at(&text, p), end_point: text::point_at(&text, q) };
                        ie.edit_range(&mut r);
                        if let Some(m) = check_mapped("InputEdit::edit_range start", &e, &new_text, p, r.start_byte, r.start_point, true) { fail("edit-range", m); }
                        if let Some(m) = check_mapped("InputEdit::edit_range end", &e, &new_text, q, r.end_byte, r.end_point, true) { fail("edit-range", m); }
                    }
                }
                // the tree's stored included ranges move by the same mapping
                let before = tree.included_ranges();
                let after = edited.included_ranges();
                if before.len() != after.len() { fail("included-ranges", format!("range count {} -> {}", before.len(), after.len())); }
                else {
                    for (rb, ra) in before.iter().zip(after.iter()) {
                        if rb.start_byte <= text.len() { if let Some(m) = check_mapped("included range start", &e, &new_text, rb.start_byte, ra.start_byte, ra.start_point, path.is_empty()) { fail("included-ranges", m); } }
                        if rb.end_byte <= text.len() { if let Some(m) = check_mapped("included range end", &e, &new_text, rb.end_byte, ra.end_byte, ra.end_point, path.is_empty()) { fail("included-ranges", m); } }
                        else if ra.end_byte != rb.end_byte { fail("included-ranges", format!("open-ended range end changed {} -> {}", rb.end_byte, ra.end_byte)); }
                    }
                }
            }
            let old_end = e.start + e.old_len;
            if ox.nodes.iter().skip(1).any(|a| a.start < old_end.max(e.start + 1) && a.end > e.start) { res.nontrivial += 1; }
            res.outcome(nx.nodes.iter().filter(|b| b.has_changes).count() as u64 * 1000 + nx.nodes.len() as u64);
            for (fp, m) in errs { res.violation(&fp, m, case_json(&info.name, doc, &full)); }
            if !sampled && e.start == text.len() / 2 && e.old_len == 1 { sampled = true; res.sample(case_json(&info.name, doc, &full)); }
            let key = (crate::util::fnv(&new_text), xtree::internal_hash(&edited));
            if seen.insert(key) {
                res.states += 1;
                if full.len() < depth { frontier.push_back((new_text, edited, full)); }
            }
            if res.too_many() { return; }
        }
        if ctx.out_of_time() { res.caps.push("wall-clock budget reached; remaining frontier not expanded".into()); return; }
    }
}

/// Trees parsed WITH included ranges: the range list a tree stores must move under `Tree::edit` exactly as each range moves
/// under `InputEdit::edit_range` (which the main exploration checks against the text model), for every list of one range or
/// of two ranges (adjacent or with a one-byte gap) over the document and every edit. The default range [0, MAX) of the other
/// trees can never end at or before an edit.
fn explore_ranged(ctx: &Ctx, info: &LangInfo, doc: &[u8], res: &mut ShardResult) {
    let n = doc.len();
    let mut lists: Vec<Vec<(usize, usize)>> = vec![];
    for a in 0..=n { for b in a..=n { if (a, b) != (0, n) { lists.push(vec![(a, b)]); } } }
    for k in 0..=n { for g in 0..=1usize { if k + g <= n { lists.push(vec![(0, k), (k + g, n)]); lists.push(vec![(0, k), (k + g, u32::MAX as usize)]); } } }
    let mut parser = Parser::new();
    parser.set_language(&info.language).unwrap();
    for rl in lists {
        let rs: Vec<tree_sitter::Range> = rl.iter().map(|&(s, e)| crate::checks::c13::mk_range(doc, s, e)).collect();
        if parser.set_included_ranges(&rs).is_err() { continue; }
        let tree = parser.parse(doc, None).unwrap();
        res.states += 1;
        for e in edits_for(n) {
            if e.ins.len() > 2 { continue; }
            let (_nt, ie) = text::apply(doc, &e);
            let mut cj = case_json(&info.name, doc, &[e.clone()]);
            cj["ranges"] = json!(rl);
            crate::case!("{}", cj);
            let mut edited = tree.clone();
            edited.edit(&ie);
            res.transitions += 1;
            let want: Vec<tree_sitter::Range> = tree.included_ranges().into_iter().map(|mut r| { ie.edit_range(&mut r); r }).collect();
            let got = edited.included_ranges();
            if rl.iter().any(|&(_, b)| b <= e.start) { res.nontrivial += 1; }
            if got != want {
                res.violation("included-ranges-after-edit", format!("ranges {:?}, edit {}: the tree stores {:?}, InputEdit::edit_range gives {:?}", rl, e.describe(), got.iter().map(|r| (r.start_byte, r.end_byte, r.start_point, r.end_point)).collect::<Vec<_>>(), want.iter().map(|r| (r.start_byte, r.end_byte, r.start_point, r.end_point)).collect::<Vec<_>>()), cj);
                if res.too_many() { return; }
            }
        }
        if ctx.out_of_time() { return; }
    }
    parser.set_included_ranges(&[]).unwrap();
}

pub fn worker(ctx: &Ctx, res: &mut ShardResult) {
    let zoo = crate::zoo::core_zoo();
    let nlang = zoo.len();
    let mut idx = 0usize;
    // trees with explicit included ranges (the range arithmetic does not depend on the language: three of them)
    let ranged_len = if ctx.mini() { 3 } else if ctx.quick() { 5 } else { 8 };
    for z in zoo.iter().filter(|z| ["arith", "stmts", "indent"].contains(&z.name)) {
        let info = build_info(z);
        for d in crate::docs::docs(z, 2).iter().filter(|d| !d.is_empty() && d.len() <= ranged_len) {
            idx += 1;
            if !ctx.mine(idx) { continue; }
            explore_ranged(ctx, &info, d, res);
            if ctx.out_of_time() || res.too_many() { return; }
        }
    }
    for (k, depth) in params(&ctx.tier) {
        for (li, z) in zoo.iter().enumerate() {
            let info = build_info(z);
            let docs = crate::docs::docs(z, k);
            for (di, d) in docs.iter().enumerate() {
                // deeper passes start from short documents only (the edit alphabet grows with the square of the text length)
                if depth >= 2 && d.len() > deep_doc_limit(&ctx.tier, depth) { continue; }
                idx += 1;
                if !ctx.mine(idx) { continue; }
                let extra = if !ctx.mini() && depth == 1 && (ctx.seed as usize) % nlang == li && di < z.seeds.len() && d.len() <= 10 { 1 } else { 0 };
                explore(ctx, &info, d, depth + extra, res);
                if ctx.out_of_time() || res.too_many() { return; }
            }
        }
    }
}

pub fn replay(case: &Value) -> Vec<String> {
    let case = if case.get("kind").and_then(|k| k.as_str()) == Some("crash") { &case["case"] } else { case };
    let name = case["lang"].as_str().unwrap_or("");
    let Some(z) = crate::zoo::by_name(name) else { return vec![format!("unknown language {}", name)] };
    let info = build_info(&z);
    let mut text = crate::util::bytes_from_json(&case["doc"]);
    let edits: Vec<Edit> = case["edits"].as_array().unwrap().iter().map(Edit::from_json).collect();
    let mut parser = Parser::new();
    parser.set_language(&info.language).unwrap();
    let mut tree = parser.parse(&text, None).unwrap();
    println!("tree: {}", tree.root_node().to_sexp());
    let mut msgs = vec![];
    for (k, e) in edits.iter().enumerate() {
        let (nt, ie) = text::apply(&text, e);
        let ox = XTree::build(&tree);
        let mut edited = tree.clone();
        edited.edit(&ie);
        let nx = XTree::build(&edited);
        if k + 1 == edits.len() {
            println!("edit {} on {:?} -> {:?}", e.describe(), String::from_utf8_lossy(&text), String::from_utf8_lossy(&nt));
            for (fp, m) in check_edit(&ox, &nx, e, &nt) { msgs.push(format!("{}: {}", fp, m)); }
        }
        tree = edited;
        text = nt;
    }
    msgs
}
