//! C12: re-parsing after a small edit reuses the unchanged parts of the old tree (quantitative, enumerated family).
use crate::checks::c_hist::build_info;
use crate::run::{CheckMeta, Ctx, ShardResult};
use crate::text::{self, Edit};
use crate::xtree::XTree;
use serde_json::{json, Value};
use std::collections::HashSet;
use std::sync::atomic::{AtomicUsize, Ordering};
use std::sync::Arc;
use tree_sitter::{LogType, Parser};

pub fn meta(tier: &str) -> CheckMeta {
    CheckMeta {
        id: "C12", level: "exploration",
        rule: "Enumerated family with a quantitative oracle: for each calibrated zoo language (stmts, arith, jsonish, pstring, lexla, colm) a deterministic generator builds error-free documents of N = 1e3 and 1e4 tokens (thorough: 1e5); single-token edits (one byte of an identifier/number replaced) at EVERY token position for 1e3, every 16th for 1e4, every 256th for 1e5, plus first/last; measured through public means only: `lexed_lookahead` events of the parse logger, bytes handed out by a 64-byte-chunk read callback, and the fraction of new-tree nodes whose Node::id also occurs in the old tree. Fixed thresholds per language (>= 10x the worst value measured on the reference tree, floor 60 tokens / 4 kB; shared-node fraction >= 0.7x the measured value) and the growth rule frac(10N) <= max(2*frac(N), floor/N). A distinct non-trivial case = an (language, N, position) triple whose re-parse reused at least one node.",
        assumptions: vec!["thresholds were calibrated on the pinned tree with a 10x margin; this is a regression bound, not a proof of sub-linearity".into()],
        exhaustive: true,
        bounds: json!({"tier": tier, "sizes": if tier == "thorough" { vec![1000, 10000, 100000] } else { vec![1000, 10000] }}),
    }
}

/// document with about n tokens, plus the byte offsets of editable word tokens (identifiers / numbers)
pub fn gen_doc(lang: &str, n: usize) -> (Vec<u8>, Vec<usize>) {
    let mut s = String::new();
    let mut edit_at = vec![];
    let mut i = 0usize;
    let names = ["alpha", "beta", "gamma", "delta", "eps"];
    match lang {
        "stmts" => { while i * 12 < n { let a = names[i % 5]; edit_at.push(s.len() + 4); s.push_str(&format!("let {} = f({}, {}) + {};\n", a, names[(i + 1) % 5], i % 97, i % 13)); i += 1; } }
        "arith" => { s.push_str("f("); while i * 6 < n { if i > 0 { s.push_str(", "); } edit_at.push(s.len()); s.push_str(&format!("{}+{}*x", names[i % 5], i % 89)); i += 1; } s.push(')'); }
        "jsonish" => { s.push('['); while i * 10 < n { if i > 0 { s.push_str(",\n"); } edit_at.push(s.len() + 8); s.push_str(&format!("{{\"k\": [{}, true, \"v{}\"]}}", 1000 + i % 7000, i % 10)); i += 1; } s.push(']'); }
        "indent" => { while i * 8 < n { edit_at.push(s.len()); s.push_str(&format!("{}:\n  y z\n  w:\n    q\n", names[i % 5])); i += 1; } }
        "glr" => { while i * 5 < n { edit_at.push(s.len()); s.push_str(&format!("{} * b;\nc d;\n", names[i % 5])); i += 1; } }
        "lexla" => { while i * 6 < n { edit_at.push(s.len()); s.push_str(&format!("{} abcd 1.5 .. /x/ -->\n", names[i % 5])); i += 1; } }
        // four large groups (the fork at a group header is resolved inside the following large body); the edited tokens
        // are the numbers of the entries
        "groups" => { let per = (n / 16).max(1); for gi in 0..4 { s.push_str(if gi % 2 == 0 { "first 7 {+\n" } else { "second 7 {-\n" }); for e in 0..per { edit_at.push(s.len() + 6); s.push_str(&format!("key = {};\n", 10 + e % 80)); } s.push_str("}\n"); } }
        // identifier-first statements: the first leaf of every statement is the word token
        "stmts_calls" => { while i * 7 < n { let a = names[i % 5]; edit_at.push(s.len() + a.len() + 1 + names[(i + 1) % 5].len() + 2); s.push_str(&format!("{}({}, {});\n", a, names[(i + 1) % 5], 10 + i % 80)); i += 1; } }
        // statements whose first child ends in a repetition of four elements
        "stmts_from" => { while i * 6 < n { let a = names[i % 5]; edit_at.push(s.len() + 5); s.push_str(&format!("from {} {} {} {};\n", a, names[(i + 1) % 5], names[(i + 2) % 5], names[(i + 3) % 5])); i += 1; } }
        "lookfar" => { while i * 6 < n { edit_at.push(s.len()); s.push_str(&format!("{} bc-a! a-bc bc\n", names[i % 5])); i += 1; } }
        // column-dependent tokens (the scanner asks for the column) on every line; the edited token is the first word
        "colm" => { while i * 8 < n { edit_at.push(s.len()); s.push_str(&format!("{} ! beta @ (gamma ! @)\n", names[i % 5])); i += 1; } }
        "pstring" => { while i * 6 < n { edit_at.push(s.len() + 2); s.push_str(&format!("%({}(b)c) w {}\n", names[i % 5], i % 77)); i += 1; } }
        _ => {}
    }
    (s.into_bytes(), edit_at)
}

#[derive(Debug, Clone, Copy)]
pub struct Measure { pub lexed: usize, pub bytes_read: usize, pub shared_frac: f64, pub new_nodes: usize }

pub fn measure(parser: &mut Parser, old_text: &[u8], old_tree: &tree_sitter::Tree, old_ids: &HashSet<usize>, pos: usize) -> Option<Measure> {
    // replace one byte of the word at `pos` by another letter/digit of the same class
    let b = old_text[pos];
    let nb = if b.is_ascii_digit() { if b == b'1' { b'2' } else { b'1' } } else if b == b'q' { b'r' } else { b'q' };
    let e = Edit { start: pos, old_len: 1, ins: vec![nb] };
    let (nt, ie) = text::apply(old_text, &e);
    let mut old = old_tree.clone();
    old.edit(&ie);
    let lexed = Arc::new(AtomicUsize::new(0));
    let l2 = lexed.clone();
    parser.set_logger(Some(Box::new(move |t: LogType, m: &str| { if t == LogType::Parse && m.starts_with("lexed_lookahead") { l2.fetch_add(1, Ordering::Relaxed); } })));
    let mut bytes = 0usize;
    let len = nt.len();
    let tree = parser.parse_with_options(&mut |i, _| { if i < len { let e = (i + 64).min(len); bytes += e - i; &nt[i..e] } else { &nt[len..] } }, Some(&old), None);
    parser.set_logger(None);
    let tree = tree?;
    if tree.root_node().has_error() { return None; }
    let nx = XTree::build(&tree);
    let shared = nx.nodes.iter().filter(|n| old_ids.contains(&n.id)).count();
    let lexed_count = lexed.load(Ordering::Relaxed);
    Some(Measure { lexed: lexed_count, bytes_read: bytes, shared_frac: shared as f64 / nx.nodes.len() as f64, new_nodes: nx.nodes.len() })
}

/// document families are named after their zoo language, except `stmts_calls` (stmts documents made of statements that
/// BEGIN with an identifier, i.e. with the `word` token)
pub fn zoo_of(label: &str) -> &str { if label == "stmts_calls" || label == "stmts_from" { "stmts" } else { label } }

/// thresholds: (max lexed tokens, max bytes read, min shared fraction at N >= 1000)
pub fn thresholds(lang: &str) -> (usize, usize, f64) {
    match lang {
        // measured on the reference tree (N = 1e3 .. 1e5): lexed 1-2 tokens, 64 bytes read; shared fraction
        // stmts 0.934, arith 0.992, jsonish 0.992, pstring 0.497 (ids of leaves directly below re-built repeat nodes change)
        "stmts" => (60, 4096, 0.65),
        "arith" => (60, 4096, 0.69),
        "jsonish" => (60, 4096, 0.69),
        "pstring" => (60, 4096, 0.34),
        // four large groups with a GLR fork at each header: measured 15 tokens, 320 bytes, 0.776..0.80 shared at every size
        "groups" => (60, 4096, 0.55),
        // identifier-first statements in a grammar with a `word` token: on the reference tree every statement's first token is
        // lexed again on every re-parse (measured: N/7 tokens = one per statement, half of the nodes shared, at every size),
        // and with a 64-byte read callback that touches nearly all of the text. The bounds for this family are therefore
        // relative: at most N/4 tokens, at least 35% of the nodes shared; the byte bound is not meaningful here.
        "stmts_calls" => (usize::MAX, usize::MAX, 0.35),
        // column-dependent tokens: every text-changing edit invalidates the column-dependent tokens of the rest of ITS line
        // (measured: 13-24 tokens, 66 bytes, 0.63-0.64 shared at N = 1e3 and 1e4); nothing beyond the line may be touched
        "colm" => (60, 4096, 0.45),
        // statements whose first child ends in a repetition: measured 4 tokens, 64 bytes, 0.993 shared
        "stmts_from" => (60, 4096, 0.70),
        "lexla" => (60, 4096, 0.0), // every node is a leaf below a re-built repeat node: identity sharing is not asserted
        _ => (60, 4096, 0.3),
    }
}

pub fn worker(ctx: &Ctx, res: &mut ShardResult) {
    let sizes: Vec<usize> = if ctx.mini() { vec![1000] } else if ctx.tier == "thorough" { vec![1000, 10000, 100000] } else { vec![1000, 10000] };
    let calibrate = std::env::var("VF_C12_CALIBRATE").is_ok();
    let mut idx = 0usize;
    // `indent` is deliberately not in the calibrated set: on the reference tree its zero-width scanner tokens make the
    // re-parse lex everything after the edit (measured: all of N tokens), so no meaningful regression bound exists for it.
    // Likewise `glr`: with several stack versions alive the parser does not reuse nodes at all (measured: 80% of N lexed).
    for lname in ["stmts", "arith", "jsonish", "pstring", "lexla", "groups", "stmts_calls", "colm", "stmts_from"] {
        let z = crate::zoo::by_name(zoo_of(lname)).unwrap();
        let info = build_info(&z);
        let (max_lexed_abs, max_bytes_abs, min_shared) = thresholds(lname);
        let mut worst_by_size: Vec<(usize, usize, usize, f64)> = vec![];
        for &n in &sizes {
            let (doc, edit_at) = gen_doc(lname, n);
            // `stmts_calls`: bounds relative to the document (see thresholds())
            let (max_lexed, max_bytes) = if lname == "stmts_calls" { (n / 4, doc.len() + 4096) } else { (max_lexed_abs, max_bytes_abs) };
            let mut parser = Parser::new();
            parser.set_language(&info.language).unwrap();
            let tree = parser.parse(&doc, None).unwrap();
            if tree.root_node().has_error() { res.violation("ENGINE-generated-document-has-errors", format!("{} n={}", lname, n), json!({"lang": lname, "n": n})); continue; }
            let ox = XTree::build(&tree);
            let old_ids: HashSet<usize> = ox.nodes.iter().map(|x| x.id).collect();
            let stride = if n <= 1000 { 1 } else if n <= 10000 { 16 } else { 256 };
            let mut positions: Vec<usize> = edit_at.iter().copied().step_by(stride).collect();
            positions.push(*edit_at.last().unwrap());
            let (mut w_lex, mut w_bytes, mut w_shared) = (0usize, 0usize, 1.0f64);
            for (pi, &pos) in positions.iter().enumerate() {
                idx += 1;
                if !ctx.mine(idx) { continue; }
                crate::case!("{}", json!({"lang": lname, "n": n, "pos": pos}));
                res.transitions += 1;
                let Some(m) = measure(&mut parser, &doc, &tree, &old_ids, pos) else { res.violation("ENGINE-edit-produced-error", format!("{} n={} pos={}", lname, n, pos), json!({"lang": lname, "n": n, "pos": pos})); continue };
                res.states += 1;
                if m.shared_frac > 0.0 { res.nontrivial += 1; }
                w_lex = w_lex.max(m.lexed); w_bytes = w_bytes.max(m.bytes_read); w_shared = w_shared.min(m.shared_frac);
                res.outcome((m.lexed as u64) << 20 | (m.bytes_read as u64 / 64));
                if !calibrate {
                    let case = json!({"lang": lname, "n": n, "pos": pos, "lexed": m.lexed, "bytes_read": m.bytes_read, "shared_fraction": m.shared_frac});
                    if m.lexed > max_lexed { res.violation("too-many-tokens-relexed", format!("{} N={} edit at byte {}: {} tokens lexed (threshold {})", lname, n, pos, m.lexed, max_lexed), case.clone()); }
                    if m.bytes_read > max_bytes { res.violation("too-much-text-read", format!("{} N={} edit at byte {}: {} bytes requested from the input callback (threshold {})", lname, n, pos, m.bytes_read, max_bytes), case.clone()); }
                    if m.shared_frac < min_shared { res.violation("too-few-nodes-shared", format!("{} N={} edit at byte {}: only {:.1}% of the new tree's nodes are shared with the old tree (threshold {:.0}%)", lname, n, pos, m.shared_frac * 100.0, min_shared * 100.0), case.clone()); }
                }
                if res.samples.len() < 3 && pi == positions.len() / 2 { res.sample(json!({"lang": lname, "n": n, "pos": pos, "lexed": m.lexed, "bytes_read": m.bytes_read, "shared_fraction": m.shared_frac, "nodes": m.new_nodes})); }
                if res.too_many() { return; }
            }
            worst_by_size.push((n, w_lex, w_bytes, w_shared));
            if calibrate && n == 1000 { for &pos in positions.iter().step_by((positions.len() / 8).max(1)) { if let Some(m) = measure(&mut parser, &doc, &tree, &old_ids, pos) { eprintln!("  PROFILE {} pos={}/{} lexed={} shared={:.3}", lname, pos, doc.len(), m.lexed, m.shared_frac); } } }
            if calibrate { eprintln!("CALIBRATE {} n={} shard={} worst_lexed={} worst_bytes={} worst_shared={:.4}", lname, n, ctx.shard, w_lex, w_bytes, w_shared); }
            res.count(&format!("worst_lexed_{}_{}", lname, n), 0);
        }
        // growth rule between consecutive sizes (per shard: over the positions this shard measured)
        for w in worst_by_size.windows(2) {
            let (n1, l1, b1, _) = w[0]; let (n2, l2, b2, _) = w[1];
            if l1 == 0 && b1 == 0 { continue; }
            let f1 = l1 as f64 / n1 as f64; let f2 = l2 as f64 / n2 as f64;
            if !calibrate && f2 > (2.0 * f1).max(60.0 / n2 as f64) { res.violation("relex-fraction-grows-with-size", format!("{}: worst lexed fraction {:.5} at N={} vs {:.5} at N={}", lname, f2, n2, f1, n1), json!({"lang": lname})); }
            let g1 = b1 as f64 / n1 as f64; let g2 = b2 as f64 / n2 as f64;
            if !calibrate && g2 > (2.0 * g1).max(4096.0 / n2 as f64) { res.violation("read-fraction-grows-with-size", format!("{}: worst bytes/token {:.4} at N={} vs {:.4} at N={}", lname, g2, n2, g1, n1), json!({"lang": lname})); }
        }
        if ctx.out_of_time() { res.caps.push("wall-clock budget reached".into()); return; }
    }
}

/// Re-measure one recorded (language, size, edit position) and compare with the thresholds.
pub fn replay(case: &Value) -> Vec<String> {
    let case = if case.get("kind").and_then(|k| k.as_str()) == Some("crash") { &case["case"] } else { case };
    let (Some(lname), Some(n), Some(pos)) = (case["lang"].as_str(), case["n"].as_u64(), case["pos"].as_u64()) else { return vec![format!("not a single-measurement case (the growth rule compares whole sizes): rerun ./vf check C12 quick ({})", case)] };
    let Some(z) = crate::zoo::by_name(zoo_of(lname)) else { return vec![format!("unknown language {}", lname)] };
    let info = build_info(&z);
    let (doc, _) = gen_doc(lname, n as usize);
    let mut parser = Parser::new();
    parser.set_language(&info.language).unwrap();
    let tree = parser.parse(&doc, None).unwrap();
    let old_ids: HashSet<usize> = XTree::build(&tree).nodes.iter().map(|x| x.id).collect();
    let Some(m) = measure(&mut parser, &doc, &tree, &old_ids, pos as usize) else { return vec!["the edit produced an error tree".into()] };
    let (max_lexed, max_bytes, min_shared) = thresholds(lname);
    let (max_lexed, max_bytes) = if lname == "stmts_calls" { (n as usize / 4, doc.len() + 4096) } else { (max_lexed, max_bytes) };
    println!("lexed {} (threshold {}), bytes read {} (threshold {}), shared fraction {:.3} (threshold {:.2}), {} nodes", m.lexed, max_lexed, m.bytes_read, max_bytes, m.shared_frac, min_shared, m.new_nodes);
    let mut msgs = vec![];
    if m.lexed > max_lexed { msgs.push(format!("too-many-tokens-relexed: {} > {}", m.lexed, max_lexed)); }
    if m.bytes_read > max_bytes { msgs.push(format!("too-much-text-read: {} > {}", m.bytes_read, max_bytes)); }
    if m.shared_frac < min_shared { msgs.push(format!("too-few-nodes-shared: {:.3} < {:.2}", m.shared_frac, min_shared)); }
    msgs
}
