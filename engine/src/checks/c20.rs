//! C20: updating a test corpus preserves its inputs and converges. Corpus files are generated from a structured
//! description, so the ground truth is known without parsing them; the update runs through the real CLI library code
//! (tree_sitter_cli::test::run_tests_at_path with update = true) in a helper process.
use crate::run::{CheckMeta, Ctx, ShardResult};
use serde_json::{json, Value};
use std::path::{Path, PathBuf};
use tree_sitter::Parser;

pub fn meta(tier: &str) -> CheckMeta {
    CheckMeta {
        id: "C20", level: "model_checking",
        rule: "E-box + E-hist: corpus files generated from a structured description: single-test files for EVERY combination of name shape (plain, punctuation, containing an attribute-looking token, two lines) x attribute set (none, :skip, :error, :platform(this / other / several), :fail-fast, :language(x), :cst, two :language, :skip+:fail-fast) x input (words, multi-line, delimiter-looking lines ===, ---, -----, ===|||, parenthesised, invalid) x expected output (correct, wrong, missing, badly indented, with comments) x header length {3,5} x divider length {3,5} x suffix {none, |||} x line ending {LF, CRLF}, restricted to combinations that are well-formed under the documented delimiter rules; plus two- and three-test files built from every adjacent pair/triple of a fixed pool and 20-test files. Each file is taken through the history update, check, update, update with the real update code. Oracle (our own reader, keyed on the exact delimiter lines of the description): after the first update the file has the same number of tests with the same names, attribute lines, order and input bytes; a check run reports exactly the tests whose parse has errors (and that are not :error/:skip) as failures; the second and third update leave the file byte-identical. Non-trivial = files whose first update changes at least one expected output.",
        assumptions: vec!["inputs that would themselves be read as a longer divider or as a complete header block are excluded (the corpus format cannot express them)".into()],
        exhaustive: true,
        bounds: json!({"tier": tier, "single_test_files": "the complete product in both tiers", "one_directory_per_file": true}),
    }
}

#[derive(Clone, Debug)]
struct TestSpec { name: &'static str, attrs: Vec<&'static str>, input: &'static str, expected: usize }
#[derive(Clone, Debug)]
struct FileSpec { tests: Vec<TestSpec>, h: usize, d: usize, suffix: &'static str, crlf: bool }

const NAMES: [&str; 4] = ["plain name", "punct: (1) & more!", "has :skip inside", "two\nlines"];
const INPUTS: [&str; 9] = ["a b", "abc", "a\nb c", "===", "a\n---\nb", "-----\nx", "===|||\na", "(a b) c", "a ) b"];

fn attr_sets() -> Vec<Vec<&'static str>> {
    vec![vec![], vec![":skip"], vec![":error"], vec![":fail-fast"], vec![":language(x)"], vec![":cst"], vec![":language(x)", ":language(y)"], vec![":skip", ":fail-fast"], vec![":platform(linux)"], vec![":platform(windows)"], vec![":platform(windows)", ":platform(macos)", ":error"]]
}

fn sexp_of(parser: &mut Parser, input: &str) -> (String, bool) {
    let t = parser.parse(input, None).unwrap();
    (t.root_node().to_sexp(), t.root_node().has_error())
}

fn expected_text(kind: usize, correct: &str) -> String {
    match kind {
        0 => correct.to_string(),
        1 => "(source (word) (word) (word) (word))".to_string(),
        2 => String::new(),
        3 => correct.replace(" (", "\n      (").replace("))", ")\n )"),
        _ => format!("; a comment\n{}\n; another", correct),
    }
}

fn render(f: &FileSpec, parser: &mut Parser) -> String {
    let nl = if f.crlf { "\r\n" } else { "\n" };
    let mut out = String::new();
    for (i, t) in f.tests.iter().enumerate() {
        if i > 0 { out.push_str(nl); }
        let hdr = format!("{}{}", "=".repeat(f.h), f.suffix);
        out.push_str(&hdr); out.push_str(nl);
        out.push_str(&t.name.replace('\n', nl)); out.push_str(nl);
        for a in &t.attrs { out.push_str(a); out.push_str(nl); }
        out.push_str(&hdr); out.push_str(nl);
        out.push_str(&t.input.replace('\n', nl)); out.push_str(nl);
        out.push_str(&format!("{}{}", "-".repeat(f.d), f.suffix)); out.push_str(nl);
        out.push_str(nl);
        let (correct, _) = sexp_of(parser, t.input);
        out.push_str(&expected_text(t.expected, &correct).replace('\n', nl)); out.push_str(nl);
    }
    out
}

/// is the file well-formed under the documented delimiter rules, i.e. can its structure be recovered at all?
fn well_formed(f: &FileSpec) -> bool {
    for t in &f.tests {
        for line in t.input.split('\n') {
            let dashes = line.len() - line.trim_start_matches('-').len();
            let rest = &line[dashes..];
            // a dashes line in the input with the file's suffix that is longer than the divider would be taken as the divider
            if dashes >= 3 && rest == f.suffix && dashes > f.d { return false; }
            let eqs = line.len() - line.trim_start_matches('=').len();
            let rest = &line[eqs..];
            // an `===` line with the file's suffix inside the input opens a header block unless a blank line follows soon;
            // keep only the cases the format guarantees: different suffix
            if eqs >= 3 && rest == f.suffix { return false; }
        }
    }
    true
}

/// our reader, keyed on the exact delimiter lines of the description
#[derive(Debug, PartialEq, Clone)]
struct ReadTest { name: String, attrs: Vec<String>, input: String, expected: String }

fn read_back(text: &str, f: &FileSpec) -> Result<Vec<ReadTest>, String> {
    let hdr = format!("{}{}", "=".repeat(f.h), f.suffix);
    let div = format!("{}{}", "-".repeat(f.d), f.suffix);
    let lines: Vec<&str> = text.split('\n').map(|l| l.trim_end_matches('\r')).collect();
    let mut out = vec![];
    let mut i = 0;
    while i < lines.len() {
        if lines[i] != hdr { if !lines[i].trim().is_empty() && out.is_empty() { return Err(format!("unexpected line {:?} before the first header", lines[i])); } i += 1; continue; }
        let mut j = i + 1;
        let mut head = vec![];
        while j < lines.len() && lines[j] != hdr { head.push(lines[j]); j += 1; }
        if j >= lines.len() { return Err("unterminated header".into()); }
        let attrs: Vec<String> = head.iter().filter(|l| l.starts_with(':') && !l.contains(' ')).map(|l| l.to_string()).collect();
        let name: Vec<&str> = head.iter().copied().filter(|l| !(l.starts_with(':') && !l.contains(' '))).collect();
        // body up to the next header line
        let mut k = j + 1;
        let mut body = vec![];
        while k < lines.len() && lines[k] != hdr { body.push(lines[k]); k += 1; }
        let Some(dpos) = body.iter().rposition(|l| *l == div) else { return Err(format!("test {:?} has no divider line {:?}", name, div)) };
        let input = body[..dpos].join("\n");
        let expected = body[dpos + 1..].join("\n").trim().to_string();
        out.push(ReadTest { name: name.join("\n").trim_end().to_string(), attrs, input, expected });
        i = k;
    }
    Ok(out)
}

fn run_cli(dir: &Path, so: &Path, mode: &str) -> Result<(bool, usize), String> {
    let cli = crate::lang::work_dir().join("target-cli/release/vf-cli");
    let o = std::process::Command::new(&cli).arg("run").arg(dir).arg(so).arg("corpl").arg(mode).output().map_err(|e| format!("spawn vf-cli: {}", e))?;
    let out = String::from_utf8_lossy(&o.stdout);
    let Some(line) = out.lines().find(|l| l.starts_with("VF-RESULT")) else { return Err(format!("vf-cli gave no result (status {:?}): {} {}", o.status.code(), out.chars().take(300).collect::<String>(), String::from_utf8_lossy(&o.stderr).chars().take(600).collect::<String>())) };
    let ok = line.contains("ok=true");
    let failures = line.split("failures=").nth(1).and_then(|s| s.split(' ').next()).and_then(|s| s.parse().ok()).unwrap_or(0);
    Ok((ok, failures))
}

fn files(tier: &str) -> Vec<FileSpec> {
    let mut out = vec![];
    let shapes: Vec<(usize, usize, &'static str, bool)> = { let mut v = vec![]; for h in [3usize, 5] { for d in [3usize, 5] { for s in ["", "|||"] { for c in [false, true] { v.push((h, d, s, c)); } } } } v };
    let attrs = attr_sets();
    // single-test files: the complete product
    let stride = if tier == "mini" { 97 } else { 1 };
    let mut n = 0usize;
    for &(h, d, suffix, crlf) in &shapes { for name in NAMES { for a in &attrs { for input in INPUTS { for e in 0..5usize {
        n += 1;
        if n % stride != 0 { continue; }
        out.push(FileSpec { tests: vec![TestSpec { name, attrs: a.clone(), input, expected: e }], h, d, suffix, crlf });
    } } } } }
    // multi-test files from a fixed pool: every adjacent pair and triple, every shape
    let pool: Vec<TestSpec> = vec![
        TestSpec { name: "first", attrs: vec![], input: "a b", expected: 1 }, TestSpec { name: "second", attrs: vec![":skip"], input: "abc", expected: 0 },
        TestSpec { name: "third: x", attrs: vec![":error"], input: "a ) b", expected: 2 }, TestSpec { name: "fourth", attrs: vec![], input: "a\n---\nb", expected: 3 },
        TestSpec { name: "fifth", attrs: vec![":language(x)"], input: "(a b) c", expected: 4 }, TestSpec { name: "sixth\nline", attrs: vec![], input: "-----\nx", expected: 1 },
        TestSpec { name: "seventh", attrs: vec![":fail-fast"], input: "===|||\na", expected: 0 }, TestSpec { name: "eighth", attrs: vec![], input: "===", expected: 2 },
    ];
    for &(h, d, suffix, crlf) in &shapes {
        for w in 2..=3usize { for s in 0..pool.len() { let tests: Vec<TestSpec> = (0..w).map(|k| pool[(s + k) % pool.len()].clone()).collect(); out.push(FileSpec { tests, h, d, suffix, crlf }); } }
        let tests: Vec<TestSpec> = (0..20).map(|k| { let mut t = pool[k % pool.len()].clone(); if k >= pool.len() { t.expected = (t.expected + k) % 5; } t }).collect();
        out.push(FileSpec { tests, h, d, suffix, crlf });
    }
    // a `:fail-fast` test that FAILS (outdated expectation; `:error` on clean input) in front of and between other tests:
    // the run of the file stops there, and whatever the update then writes must still hold every test of the file
    let ff = |name: &'static str, attrs: Vec<&'static str>, input: &'static str, expected: usize| TestSpec { name, attrs, input, expected };
    for &(h, d, suffix, crlf) in &shapes {
        for stopper in [ff("stops here", vec![":fail-fast"], "a b", 1), ff("stops here", vec![":fail-fast"], "a b", 2), ff("stops here", vec![":error", ":fail-fast"], "a b", 0)] {
            let before = ff("before", vec![], "a", 1);
            let after1 = ff("after one", vec![], "b c", 1);
            let after2 = ff("after two", vec![":skip"], "(d)", 0);
            out.push(FileSpec { tests: vec![stopper.clone(), after1.clone()], h, d, suffix, crlf });
            out.push(FileSpec { tests: vec![before.clone(), stopper.clone(), after1.clone()], h, d, suffix, crlf });
            out.push(FileSpec { tests: vec![before.clone(), stopper.clone(), after1.clone(), after2.clone()], h, d, suffix, crlf });
        }
    }
    // tests that share their name: adjacent pairs and triples, separated by another test, and next to a test that is run
    // once per language (its corrected copies are collapsed into one entry when the file is rewritten)
    let dup = |input: &'static str, attrs: Vec<&'static str>, expected: usize| TestSpec { name: "same name", attrs, input, expected };
    for &(h, d, suffix, crlf) in &shapes {
        let groups: Vec<Vec<TestSpec>> = vec![
            vec![dup("a b", vec![], 1), dup("abc", vec![], 1)],
            vec![dup("a b", vec![], 0), dup("abc", vec![], 1), dup("a\nb c", vec![], 1)],
            vec![dup("a b", vec![], 1), pool[0].clone(), dup("abc", vec![], 1)],
            vec![dup("a b", vec![":language(x)", ":language(y)"], 1), dup("abc", vec![], 1), dup("(a b) c", vec![":language(x)"], 1)],
            vec![pool[0].clone(), dup("a b", vec![":skip"], 1), dup("abc", vec![], 1), pool[3].clone()],
        ];
        for tests in groups { out.push(FileSpec { tests, h, d, suffix, crlf }); }
    }
    out.into_iter().filter(well_formed).collect()
}

fn spec_json(f: &FileSpec) -> Value {
    json!({"h": f.h, "d": f.d, "suffix": f.suffix, "crlf": f.crlf, "tests": f.tests.iter().map(|t| json!({"name": t.name, "attrs": t.attrs, "input": t.input, "expected": t.expected})).collect::<Vec<_>>()})
}

fn spec_from_json(v: &Value) -> Option<FileSpec> {
    fn leak(s: &str) -> &'static str { Box::leak(s.to_string().into_boxed_str()) }
    let tests = v["tests"].as_array()?.iter().map(|t| Some(TestSpec { name: leak(t["name"].as_str()?), attrs: t["attrs"].as_array()?.iter().filter_map(|a| a.as_str()).map(leak).collect(), input: leak(t["input"].as_str()?), expected: t["expected"].as_u64()? as usize })).collect::<Option<Vec<_>>>()?;
    Some(FileSpec { tests, h: v["h"].as_u64()? as usize, d: v["d"].as_u64()? as usize, suffix: leak(v["suffix"].as_str()?), crlf: v["crlf"].as_bool()? })
}

/// the per-file oracle on the file contents before and after one, two and three updates
fn judge(f: &FileSpec, original: &str, after1: &str, after2: &str, after3: &str) -> Vec<(String, String)> {
    let mut out = vec![];
    match read_back(after1, f) {
        Err(e) => {
            let fp = if !f.suffix.is_empty() && !after1.contains(f.suffix) && after1 != original { "delimiter-suffix-lost-on-update" } else { "updated-file-unreadable" };
            out.push((fp.to_string(), format!("our reader cannot recover the tests: {}", e)));
            return out;
        }
        Ok(got) => {
            if got.len() != f.tests.len() { out.push(("test-count-changed".into(), format!("{} tests before, {} after", f.tests.len(), got.len()))); return out; }
            for (t, g) in f.tests.iter().zip(got.iter()) {
                if g.name != t.name { out.push(("test-name-changed".into(), format!("{:?} -> {:?}", t.name, g.name))); }
                if g.attrs != t.attrs.iter().map(|a| a.to_string()).collect::<Vec<_>>() { out.push(("test-attributes-changed".into(), format!("{:?} -> {:?}", t.attrs, g.attrs))); }
                if g.input != t.input { out.push(("test-input-changed".into(), format!("{:?} -> {:?}", t.input, g.input))); }
            }
        }
    }
    if after2 != after1 { out.push(("second-update-changes-file".into(), format!("second update produced:\n{}", after2))); }
    else if after3 != after2 { out.push(("third-update-changes-file".into(), "update is not idempotent".into())); }
    out
}

/// one independent run per directory (every corpus file lives in its own directory: a failing `:fail-fast` test stops the
/// run of its directory, and must not keep other files from being processed)
fn run_cli_many(list: &Path, so: &Path, mode: &str, n: usize) -> Result<Vec<(bool, usize)>, String> {
    let cli = crate::lang::work_dir().join("target-cli/release/vf-cli");
    let o = std::process::Command::new(&cli).arg("run-many").arg(list).arg(so).arg("corpl").arg(mode).output().map_err(|e| format!("spawn vf-cli: {}", e))?;
    let out = String::from_utf8_lossy(&o.stdout);
    let v: Vec<(bool, usize)> = out.lines().filter(|l| l.starts_with("VF-RESULT-FOR")).map(|line| (line.contains("ok=true"), line.split("failures=").nth(1).and_then(|s| s.split(' ').next()).and_then(|s| s.parse().ok()).unwrap_or(0))).collect();
    if v.len() != n { return Err(format!("vf-cli reported {} of {} directories (status {:?}): {}", v.len(), n, o.status.code(), String::from_utf8_lossy(&o.stderr).chars().take(400).collect::<String>())); }
    Ok(v)
}

pub fn worker(ctx: &Ctx, res: &mut ShardResult) {
    crate::run::pause_watchdog(true);
    let z = crate::zoo::corpl();
    let l = crate::lang::build(&z.spec, tree_sitter_generate::OptLevel::default()).expect("corpl builds");
    let mut parser = Parser::new();
    parser.set_language(&l.language).unwrap();
    let all = files(&ctx.tier);
    let mine: Vec<&FileSpec> = all.iter().enumerate().filter(|(i, _)| ctx.mine(*i)).map(|(_, f)| f).collect();
    let root = crate::lang::work_dir().join("c20").join(format!("shard{}-{}", ctx.shard, std::process::id()));
    let _ = std::fs::remove_dir_all(&root);
    for (bi, batch) in mine.chunks(400).enumerate() {
        let dir = root.join(format!("b{}", bi));
        std::fs::create_dir_all(&dir).unwrap();
        let path = |k: usize| dir.join(format!("d{:04}", k)).join("f.txt");
        let mut originals = vec![];
        let mut list = String::new();
        for (k, f) in batch.iter().enumerate() {
            let text = render(f, &mut parser);
            std::fs::create_dir_all(path(k).parent().unwrap()).unwrap();
            std::fs::write(path(k), &text).unwrap();
            list.push_str(&format!("{}\n", path(k).parent().unwrap().display()));
            originals.push(text);
        }
        let list_file = dir.join("dirs.txt");
        std::fs::write(&list_file, &list).unwrap();
        crate::case!("{}", json!({"batch": bi, "files": batch.len()}));
        let step = |mode: &str, res: &mut ShardResult| -> Option<Vec<(bool, usize)>> { match run_cli_many(&list_file, &l.so_path, mode, batch.len()) { Ok(r) => Some(r), Err(e) => { res.violation("ENGINE-update-run-failed", e, json!({"batch": bi, "mode": mode})); None } } };
        let read_all = || -> Vec<String> { (0..batch.len()).map(|k| std::fs::read_to_string(path(k)).unwrap_or_default()).collect() };
        if step("update", res).is_none() { continue; }
        let after1 = read_all();
        let Some(checked) = step("check", res) else { continue };
        if step("update", res).is_none() { continue; }
        let after2 = read_all();
        if step("update", res).is_none() { continue; }
        let after3 = read_all();
        res.transitions += 4 * batch.len() as u64;
        for (k, f) in batch.iter().enumerate() {
            res.states += 1;
            let case = json!({"file": originals[k], "spec": spec_json(f)});
            if after1[k] != originals[k] { res.nontrivial += 1; }
            let verdicts = judge(f, &originals[k], &after1[k], &after2[k], &after3[k]);
            let unreadable = verdicts.iter().any(|(fp, _)| fp == "updated-file-unreadable" || fp == "delimiter-suffix-lost-on-update" || fp == "test-count-changed");
            for (fp, msg) in verdicts { res.violation(&fp, format!("{} | file was:\n{}\n| after update:\n{}", msg, originals[k], after1[k]), case.clone()); }
            res.outcome((after1[k].len() % 97) as u64);
            if unreadable { continue; }
            // a failing `:fail-fast` test ends the run of its file before anything is written back: such a file is not updated
            // at all, and its tests are not "updated tests" in the sense of the property
            if fail_fast_blocks(f, &mut parser) { res.count("files_not_updated_because_a_fail_fast_test_fails", 1); continue; }
            let expected_failures = expected_failures_of(f, &mut parser);
            if checked[k].1 > expected_failures {
                res.violation("updated-tests-still-fail", format!("after update a check run reports {} failing tests, at most {} can have unfixable parse errors | file was:\n{}\n| after update:\n{}", checked[k].1, expected_failures, originals[k], after1[k]), case.clone());
            }
        }
        if res.samples.is_empty() { res.sample(json!({"file": originals[0], "after_update": after1[0]})); }
        let _ = std::fs::remove_dir_all(&dir);
        if res.too_many() { break; }
        if ctx.out_of_time() { res.caps.push("wall-clock budget reached".into()); break; }
    }
    let _ = std::fs::remove_dir_all(&root);
}

/// `:skip`, or `:platform(..)` attributes none of which names this platform: the test is not run (and must be kept as it is)
fn not_run(t: &TestSpec) -> bool {
    if t.attrs.contains(&":skip") { return true; }
    let plats: Vec<&&str> = t.attrs.iter().filter(|a| a.starts_with(":platform(")).collect();
    !plats.is_empty() && !plats.iter().any(|a| a.trim_start_matches(":platform(").trim_end_matches(')') == std::env::consts::OS)
}

fn fail_fast_blocks(f: &FileSpec, parser: &mut Parser) -> bool {
    f.tests.iter().any(|t| {
        if !t.attrs.contains(&":fail-fast") || not_run(t) { return false; }
        let (_, has_err) = sexp_of(parser, t.input);
        let error_attr = t.attrs.contains(&":error");
        if error_attr { return !has_err; }
        has_err || t.expected == 1 || t.expected == 2 || t.attrs.contains(&":cst")
    })
}

/// how many tests of the file may still fail after an update: only those that cannot be fixed automatically
fn expected_failures_of(f: &FileSpec, parser: &mut Parser) -> usize {
    let mut n = 0usize;
    for t in &f.tests {
        let (_, has_err) = sexp_of(parser, t.input);
        let skip = not_run(t);
        let error_attr = t.attrs.contains(&":error");
        // (a test is run, and can fail, once per language it names)
        let runs = t.attrs.iter().filter(|a| a.starts_with(":language")).count().max(1);
        // (for :cst tests our 'correct' expectation, an S-expression, is never what the CST renderer prints)
        let cst = t.attrs.contains(&":cst");
        if !skip && ((has_err && !error_attr && (t.expected != 0 || cst)) || (error_attr && !has_err)) { n += runs; }
    }
    n
}

/// Re-run one recorded file: write it into an empty directory, update it three times through the real CLI code, judge it.
pub fn replay(case: &Value) -> Vec<String> {
    let case = if case.get("kind").and_then(|k| k.as_str()) == Some("crash") { &case["case"] } else { case };
    let (Some(f), Some(original)) = (spec_from_json(&case["spec"]), case["file"].as_str()) else { return vec![format!("not a single-file case: {}", case.to_string().chars().take(200).collect::<String>())] };
    let z = crate::zoo::corpl();
    let l = crate::lang::build(&z.spec, tree_sitter_generate::OptLevel::default()).expect("corpl builds");
    let dir = crate::lang::work_dir().join("c20").join(format!("replay-{}", std::process::id()));
    let _ = std::fs::remove_dir_all(&dir);
    std::fs::create_dir_all(&dir).unwrap();
    let path = dir.join("f.txt");
    std::fs::write(&path, original).unwrap();
    let mut afters = vec![];
    for _ in 0..3 {
        if let Err(e) = run_cli(&dir, &l.so_path, "update") { let _ = std::fs::remove_dir_all(&dir); return vec![format!("update-run-failed: {}", e)]; }
        afters.push(std::fs::read_to_string(&path).unwrap_or_default());
    }
    let checked = run_cli(&dir, &l.so_path, "check");
    let _ = std::fs::remove_dir_all(&dir);
    println!("file before:\n{}\nfile after one update:\n{}", original, afters[0]);
    let mut msgs: Vec<String> = judge(&f, original, &afters[0], &afters[1], &afters[2]).into_iter().map(|(fp, m)| format!("{}: {}", fp, m)).collect();
    let mut parser = Parser::new();
    parser.set_language(&l.language).unwrap();
    if let Ok((_, n)) = checked { let e = expected_failures_of(&f, &mut parser); if n > e && msgs.is_empty() && !fail_fast_blocks(&f, &mut parser) { msgs.push(format!("updated-tests-still-fail: {} failing tests after update, at most {} unfixable", n, e)); } }
    msgs
}
