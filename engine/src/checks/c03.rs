//! C03: a generated parser recognises exactly its grammar and builds its derivation.
use crate::deriv::{self, Deriver, RNode, RefGrammar, Tok};
use crate::families::{self, FamGrammar, OpTable};
use crate::lang::{self, LangSpec};
use crate::run::{CheckMeta, Ctx, ShardResult};
use crate::xtree::XTree;
use serde_json::{json, Value};
use tree_sitter::Parser;
use tree_sitter_generate::OptLevel;

pub fn meta(tier: &str) -> CheckMeta {
    let (n1, n2, n3, cap) = params(tier);
    CheckMeta {
        id: "C03", level: "model_checking",
        rule: "E-box over grammars x strings. G1: every grammar top->S(mid), mid->S(low), low->T with S in a menu of 10 shapes (seq, optional, repeat, repeat1, choice, field, alias, doubled) and T in 4 terminal shapes, crossed with the switches mid hidden / low hidden / mid inlined / whitespace extras (6400 grammars; those the generator rejects are counted and skipped); G2: operator grammars e -> x | e op e | -e | e! for every assignment of levels {1,2,3} x {left,right} to three binary operators x 8 unary options (1728 tables); G3: hand-written GLR grammars with declared conflicts and dynamic precedence in {-1,0,1}; G4: LR(1)-but-not-LALR(1) grammars (equal cores, different reductions per look-ahead). For each accepted grammar every token string up to the length bound (with and without single spaces). Oracle: an independent span-matching derivation enumerator over the grammar JSON decides membership (no error <=> derivable) and yields the expected visible tree (kinds, fields, aliases, hidden/inlined splicing, byte ranges): unique for G1, the Pratt parser's tree for G2, and for G3 one of the derivations with maximal dynamic precedence. G7: alias tables (three productions, at most one per-production alias each at every position, named/anonymous, both declaration orders); G8: the G4 latin square behind a declared conflict (a token both shifted and look-ahead of a reduction). Non-trivial = (grammar, string) pairs where the string is in the language.",
        assumptions: vec!["the reference deriver and the Pratt parser are the specification; they were written from the grammar DSL documentation".into()],
        exhaustive: true,
        bounds: json!({"g1_max_tokens": n1, "g2_max_tokens": n2, "g3_max_tokens": n3, "grammars_per_family_cap": cap}),
    }
}

pub fn params(tier: &str) -> (usize, usize, usize, usize) {
    // (max tokens G1, G2, G3, cap on grammars per family (0 = all))
    if tier == "mini" { (3, 3, 3, 40) } else if tier == "quick" { (5, 5, 5, 480) } else { (7, 7, 6, 0) }
}

pub fn build_fam(f: &FamGrammar, opt: OptLevel) -> Result<lang::Lang, lang::BuildError> {
    lang::build(&LangSpec { name: f.g.name.clone(), grammar_json: f.g.to_json(), scanner_c: None }, opt)
}

pub fn text_of(f: &FamGrammar, ix: &[usize], sep: &str) -> (Vec<u8>, Vec<Tok>) {
    let mut text = Vec::new();
    let mut toks = vec![];
    for (k, &i) in ix.iter().enumerate() {
        if k > 0 { text.extend_from_slice(sep.as_bytes()); }
        let start = text.len();
        text.extend_from_slice(f.alphabet[i].0.as_bytes());
        toks.push(Tok { kind: f.alphabet[i].1.clone(), start, end: text.len() });
    }
    (text, toks)
}

// ---- Pratt reference for G2 ---------------------------------------------------------------------
struct Pratt<'a> { t: &'a OpTable, toks: &'a [Tok], pos: usize }
impl<'a> Pratt<'a> {
    fn peek(&self) -> Option<&str> { self.toks.get(self.pos).map(|t| t.kind.trim_matches('"')) }
    fn leaf(&self, i: usize) -> RNode { RNode { kind: self.toks[i].kind.trim_matches('"').to_string(), named: false, field: None, ts: i, te: i + 1, children: vec![] } }
    fn e(&self, ts: usize, te: usize, children: Vec<RNode>) -> RNode { RNode { kind: "e".into(), named: true, field: None, ts, te, children } }
    /// parse an expression whose operators must bind tighter than `min` (strictly, unless `allow_eq`)
    fn expr(&mut self, min: i32, allow_eq: bool) -> Option<RNode> {
        let start = self.pos;
        let mut lhs = match self.peek()? {
            "x" => { self.pos += 1; self.e(start, start + 1, vec![self.leaf(start)]) }
            "-" if self.t.prefix.is_some() => {
                let lvl = self.t.prefix.as_ref().unwrap().1;
                self.pos += 1;
                // the operand extends over every operator that binds tighter than the prefix operator
                let operand = self.expr(lvl, false)?;
                self.e(start, self.pos, vec![self.leaf(start), operand])
            }
            _ => return None,
        };
        loop {
            let Some(op) = self.peek() else { break };
            if let Some((_, lvl, right)) = self.t.binary.iter().find(|(o, _, _)| o == op).cloned() {
                if lvl > min || (lvl == min && allow_eq) {
                    let opi = self.pos;
                    self.pos += 1;
                    // left assoc: the right operand takes strictly tighter operators; right assoc: also equal ones
                    let rhs = self.expr(lvl, right)?;
                    lhs = self.e(start, self.pos, vec![lhs, self.leaf(opi), rhs]);
                    continue;
                }
                break;
            }
            if op == "!" {
                if let Some((_, lvl)) = &self.t.postfix {
                    if *lvl > min || (*lvl == min && allow_eq) { let opi = self.pos; self.pos += 1; lhs = self.e(start, self.pos, vec![lhs, self.leaf(opi)]); continue; }
                }
                break;
            }
            break;
        }
        Some(lhs)
    }
}

fn pratt_tree(t: &OpTable, toks: &[Tok]) -> Option<RNode> {
    if toks.is_empty() { return None; }
    let mut p = Pratt { t, toks, pos: 0 };
    let e = p.expr(i32::MIN, false)?;
    if p.pos != toks.len() { return None; }
    Some(RNode { kind: "top".into(), named: true, field: None, ts: 0, te: toks.len(), children: vec![e] })
}

fn case_json(f: &FamGrammar, text: &[u8]) -> Value { json!({"family": f.kind, "grammar_id": f.id, "grammar": f.g.to_value(), "text": crate::util::bytes_json(text)}) }

pub fn check_grammar(f: &FamGrammar, maxlen: usize, res: &mut ShardResult) {
    crate::case!("{}", json!({"family": f.kind, "grammar_id": f.id, "stage": "generate"}));
    let l = match build_fam(f, OptLevel::default()) {
        Ok(l) => l,
        Err(lang::BuildError::Generate(_)) => { res.count(&format!("{}_rejected_by_generator", f.kind), 1); return; }
        Err(e) => { res.violation("generated-parser-does-not-compile", format!("{}", e), case_json(f, b"")); return; }
    };
    res.count(&format!("{}_accepted", f.kind), 1);
    res.states += 1;
    let rg = RefGrammar::from_json(&f.g.to_value());
    let mut parser = Parser::new();
    parser.set_language(&l.language).unwrap();
    let seps: Vec<&str> = if f.has_ws_extras { vec!["", " "] } else { vec![""] };
    for ix in families::token_strings(f.alphabet.len(), maxlen) {
        if families::skip_string(f, &ix) { continue; }
        for sep in &seps {
            // multi-character identifiers glue together without a separator: only single-character tokens are joined directly
            if sep.is_empty() && ix.windows(2).any(|w| f.alphabet[w[0]].1 == "identifier" && f.alphabet[w[1]].1 == "identifier" || f.alphabet[w[0]].1 == "number" && f.alphabet[w[1]].1 == "number" || f.alphabet[w[0]].1 == "identifier" && f.alphabet[w[1]].1 == "number") { continue; }
            let (text, toks) = text_of(f, &ix, sep);
            crate::case!("{}", json!({"family": f.kind, "grammar_id": f.id, "text": crate::util::bytes_json(&text)}));
            res.transitions += 1;
            let tree = parser.parse(&text, None).unwrap();
            let xt = XTree::build(&tree);
            let d = Deriver::new(&rg, &toks);
            let roots = d.roots();
            if *d.overflow.borrow() { res.count("reference_overflow", 1); continue; }
            let got_err = xt.root_has_error();
            if roots.is_empty() {
                if !got_err { res.violation("accepts-string-outside-language", format!("parser reports no error on {:?} but the grammar does not derive it; tree {}", String::from_utf8_lossy(&text), xt.sexp(&l.language)), case_json(f, &text)); }
                continue;
            }
            res.nontrivial += 1;
            if got_err { res.violation("rejects-string-in-language", format!("grammar derives {:?} as {} but the parser reports an error: {}", String::from_utf8_lossy(&text), deriv::render(&roots[0].0), xt.sexp(&l.language)), case_json(f, &text)); continue; }
            match f.kind {
                "G2" => {
                    let want = pratt_tree(f.op_table.as_ref().unwrap(), &toks);
                    match want {
                        None => res.violation("ENGINE-pratt-disagrees-with-deriver", format!("deriver accepts {:?} but the Pratt reference does not", String::from_utf8_lossy(&text)), case_json(f, &text)),
                        Some(w) => if let Err(m) = deriv::same_as_xtree(&w, &toks, &xt, 0, &l.language) {
                            res.violation("wrong-precedence-or-associativity", format!("{:?}: expected {} got {} ({})", String::from_utf8_lossy(&text), deriv::render(&w), xt.sexp(&l.language), m), case_json(f, &text));
                        }
                    }
                }
                _ => {
                    let matching: Vec<&(RNode, i32)> = roots.iter().filter(|(r, _)| deriv::same_as_xtree(r, &toks, &xt, 0, &l.language).is_ok()).collect();
                    if matching.is_empty() {
                        let m = deriv::same_as_xtree(&roots[0].0, &toks, &xt, 0, &l.language).err().unwrap_or_default();
                        res.violation("tree-is-not-a-derivation", format!("{:?}: parser built {} which is none of the {} derivation(s), e.g. {} ({})", String::from_utf8_lossy(&text), xt.sexp(&l.language), roots.len(), deriv::render(&roots[0].0), m), case_json(f, &text));
                    } else if f.kind == "G1" && roots.len() > 1 {
                        res.count("g1_ambiguous_strings", 1);
                        if res.counters.get("g1_ambiguous_strings").copied().unwrap_or(0) <= 2 { eprintln!("G1-AMBIGUOUS {} {:?}: {}", f.id, String::from_utf8_lossy(&text), roots.iter().map(|(r, _)| deriv::render(r)).collect::<Vec<_>>().join(" | ")); }
                    } else if f.kind == "G3" {
                        let best = roots.iter().map(|(_, d)| *d).max().unwrap();
                        let got = matching.iter().map(|(_, d)| *d).max().unwrap();
                        if roots.len() > 1 { res.count("g3_ambiguous_strings", 1); }
                        if got < best { res.violation("lower-dynamic-precedence-kept", format!("{:?}: kept {} with dynamic precedence {} although a derivation with {} exists", String::from_utf8_lossy(&text), xt.sexp(&l.language), got, best), case_json(f, &text)); }
                    }
                }
            }
            res.outcome(crate::util::fnv_mix(xt.nodes.len() as u64, roots.len() as u64));
        }
        if res.too_many() { break; }
    }
    if res.samples.len() < 2 { res.sample(json!({"family": f.kind, "grammar_id": f.id, "rules": f.g.to_value()["rules"]})); }
    // generated parsers of the families are not kept
    let _ = std::fs::remove_file(&l.so_path);
}

pub fn family_list(tier: &str) -> Vec<FamGrammar> {
    let (_, _, _, cap) = params(tier);
    let mut out = vec![];
    for fam in [families::g1(), families::g2(), families::g3(), families::g4(), families::g7(), families::g8(), families::g10()] {
        let n = fam.len();
        // simplest first; under a cap take an evenly spread subset so that every switch value and shape still occurs
        if cap == 0 || n <= cap { out.extend(fam); } else {
            let step = n as f64 / cap as f64;
            let mut want: Vec<usize> = (0..cap).map(|k| (k as f64 * step) as usize).collect();
            want.dedup();
            for (i, f) in fam.into_iter().enumerate() { if want.binary_search(&i).is_ok() { out.push(f); } }
        }
    }
    out
}

pub fn worker(ctx: &Ctx, res: &mut ShardResult) {
    let (n1, n2, n3, _) = params(&ctx.tier);
    for (i, f) in family_list(&ctx.tier).iter().enumerate() {
        if !ctx.mine(i) { continue; }
        let n = match f.kind { "G1" => n1, "G2" => n2, "G4" => 5.min(n1.max(4)), "G7" => 5.min(n1.max(4)), "G8" => 6.min(n1.max(4) + 1), "G10" => 4.min(n1.max(3)), _ => n3 };
        check_grammar(f, n, res);
        if res.too_many() { return; }
        if ctx.out_of_time() { res.caps.push("wall-clock budget reached; remaining grammars not explored".into()); return; }
    }
}

pub fn replay(case: &Value) -> Vec<String> {
    let case = if case.get("kind").and_then(|k| k.as_str()) == Some("crash") { &case["case"] } else { case };
    let id = case["grammar_id"].as_str().unwrap_or("");
    let all: Vec<FamGrammar> = families::g1().into_iter().chain(families::g2()).chain(families::g3()).chain(families::g4()).collect();
    let Some(f) = all.iter().find(|f| f.id == id) else { return vec![format!("unknown grammar {}", id)] };
    let mut r = ShardResult::new();
    check_grammar(f, 5, &mut r);
    r.violations.iter().map(|v| format!("{}: {}", v.fingerprint, v.what)).collect()
}
