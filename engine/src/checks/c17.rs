//! C17: highlight events are well nested and reproduce the source text exactly.
use crate::checks::c_hist::build_info;
use crate::run::{CheckMeta, Ctx, ShardResult};
use crate::xtree::XTree;
use serde_json::{json, Value};
use tree_sitter::Parser;
use tree_sitter_highlight::{Highlight, HighlightConfiguration, HighlightEvent, Highlighter, HtmlRenderer};

pub fn meta(tier: &str) -> CheckMeta {
    CheckMeta {
        id: "C17", level: "model_checking",
        rule: "E-box: configurations {stmts with highlights + locals (locals query in two pattern orders: definitions first, reference first); tmpl with an arith injection in three variants (plain, include-children, combined); three layers tmpl -> combined text chunks as arith -> each parenthesised group as stmts (a node of the middle layer spans a directive)} x recognised-name lists {full, without definitions, keywords only} x sources {seeds, all strings of <=k lexemes, all strings of <=4 adversarial byte atoms incl. CR, CRLF, NUL, invalid UTF-8}; ONE Highlighter reused across all sources of a run. Oracle on the event stream: Source spans contiguous, increasing, covering [0,len) exactly once; start/end events never unbalanced and all closed at the end; every span emitted while a highlight of the injected language is open lies inside an injection content node (computed by our own evaluation on the parent tree); a reference that our own scope walk resolves to an earlier definition carries the definition's highlight. HtmlRenderer: tags stripped and the five entities decoded, the output equals the source after the documented normalisations (CR dropped, invalid UTF-8 replaced, final newline added). For stmts two more name lists leave out one kind of definition: a reference resolved to a definition without highlight keeps its own highlight. Non-trivial = sources with at least one highlight span.",
        assumptions: vec!["runs of U+FFFD are compared collapsed (how many replacement characters an invalid run yields is not documented)".into()],
        exhaustive: true,
        bounds: json!({"tier": tier, "lexeme_strings_k": if tier == "quick" { 3 } else { 4 }, "nested_piece_strings": if tier == "quick" { 4 } else { 5 }, "byte_atoms": 4}),
    }
}

const STMTS_HL: &str = r#"
(identifier) @variable
(number) @number
(comment) @comment
(block_comment) @comment
["let" "if" "else" "fn"] @keyword
(call fn: (identifier) @function)
(fn_def name: (identifier) @function)
["+" "-" "*"] @operator
(let_stmt name: (name) @definition.var)
(params (identifier) @definition.param)
"#;
const STMTS_LOCALS: &str = r#"
(block) @local.scope
(fn_def) @local.scope
(let_stmt name: (name) @local.definition)
(params (identifier) @local.definition)
(identifier) @local.reference
"#;
/// The same locals with the reference pattern FIRST: a definition node is then captured as a reference before it is
/// captured as a definition (names variant 5).
const STMTS_LOCALS_REF_FIRST: &str = r#"
(identifier) @local.reference
(block) @local.scope
(fn_def) @local.scope
(let_stmt name: (name) @local.definition)
(params (identifier) @local.definition)
"#;
fn locals_for(variant: usize) -> &'static str { if variant == 5 { STMTS_LOCALS_REF_FIRST } else { STMTS_LOCALS } }
const ARITH_HL: &str = r#"
(number) @arith.number
(var) @arith.var
["+" "-" "*" "^"] @arith.operator
(call fn: (var) @arith.function)
"#;
const TMPL_HL: &str = r#"
(text) @text
["<%" "<%=" "%>"] @tag
"#;

fn names(variant: usize) -> Vec<&'static str> {
    match variant {
        0 | 5 => vec!["variable", "number", "comment", "keyword", "function", "operator", "definition.var", "definition.param", "text", "tag", "arith.number", "arith.var", "arith.operator", "arith.function"],
        1 => vec!["variable", "number", "comment", "keyword", "function", "operator", "text", "tag", "arith.number", "arith.var"],
        2 => vec!["keyword", "tag", "arith"],
        // one kind of definition is not recognised: such a definition carries no highlight, and a reference that resolves to
        // it keeps its own highlight even when a highlighted definition of the same name is visible further out
        3 => vec!["variable", "number", "comment", "keyword", "function", "operator", "definition.param", "text", "tag", "arith.number", "arith.var", "arith.operator", "arith.function"],
        _ => vec!["variable", "number", "comment", "keyword", "function", "operator", "definition.var", "text", "tag", "arith.number", "arith.var", "arith.operator", "arith.function"],
    }
}

fn case_json(cfg: &str, variant: usize, src: &[u8]) -> Value { json!({"config": cfg, "names_variant": variant, "source": crate::util::bytes_json(src)}) }

fn collapse_fffd(s: &str) -> String { let mut out = String::new(); let mut prev = false; for c in s.chars() { if c == '\u{fffd}' { if !prev { out.push(c); } prev = true; } else { out.push(c); prev = false; } } out }

fn strip_html(html: &str) -> String {
    let mut out = String::new();
    let mut it = html.chars().peekable();
    while let Some(c) = it.next() {
        if c == '<' { for d in it.by_ref() { if d == '>' { break; } } continue; }
        if c == '&' {
            let mut ent = String::new();
            for d in it.by_ref() { if d == ';' { break; } ent.push(d); if ent.len() > 6 { break; } }
            out.push(match ent.as_str() { "gt" => '>', "lt" => '<', "amp" => '&', "#39" => '\'', "quot" => '"', _ => '\u{0}' });
            continue;
        }
        out.push(c);
    }
    out
}

const INJ_VARIANTS: [&str; 3] = [
    "((code) @injection.content (#set! injection.language \"arith\"))",
    "((code) @injection.content (#set! injection.language \"arith\") (#set! injection.include-children))",
    "((code) @injection.content (#set! injection.language \"arith\") (#set! injection.combined))",
];

fn same_events(a: &[HighlightEvent], b: &[HighlightEvent]) -> bool {
    a.len() == b.len() && a.iter().zip(b.iter()).all(|(x, y)| match (x, y) {
        (HighlightEvent::HighlightStart(h1), HighlightEvent::HighlightStart(h2)) => h1.0 == h2.0,
        (HighlightEvent::HighlightEnd, HighlightEvent::HighlightEnd) => true,
        (HighlightEvent::Source { start: s1, end: e1 }, HighlightEvent::Source { start: s2, end: e2 }) => s1 == s2 && e1 == e2,
        _ => false,
    })
}

fn render_events(ev: &[HighlightEvent], names: &[&'static str]) -> String {
    let mut line = String::new();
    for e in ev.iter().take(60) { match *e { HighlightEvent::HighlightStart(h) => line.push_str(&format!("<{}>", names.get(h.0).copied().unwrap_or("?"))), HighlightEvent::HighlightEnd => line.push_str("</>"), HighlightEvent::Source { start, end } => line.push_str(&format!("[{}..{}]", start, end)) } }
    line
}

struct Cfg { name: &'static str, main: HighlightConfiguration, injected: Option<HighlightConfiguration>, names: Vec<&'static str> }

fn check_source(cfg: &Cfg, hl: &mut Highlighter, parent_lang: &tree_sitter::Language, variant: usize, src: &[u8], res: &mut ShardResult) {
    crate::case!("{}", case_json(cfg.name, variant, src));
    res.transitions += 1;
    let fail = |res: &mut ShardResult, fp: &str, msg: String| res.violation(fp, format!("config {} names {} source {:?}: {}", cfg.name, variant, String::from_utf8_lossy(src), msg), case_json(cfg.name, variant, src));
    let injected = cfg.injected.as_ref();
    let events: Vec<HighlightEvent> = {
        let it = match hl.highlight(&cfg.main, src, None, None, move |name| if name == "arith" { injected } else { None }) { Ok(it) => it, Err(e) => { fail(res, "highlight-error", format!("{:?}", e)); return; } };
        let mut v = vec![];
        for e in it { match e { Ok(e) => v.push(e), Err(e) => { fail(res, "highlight-error", format!("{:?}", e)); return; } } if v.len() > 100_000 { fail(res, "highlight-does-not-terminate", "more than 100000 events".into()); return; } }
        v
    };
    // highlighter reuse across documents: a fresh Highlighter must produce the same event stream as the reused one
    {
        let mut fresh = Highlighter::new();
        let injected = cfg.injected.as_ref();
        let fresh_events: Vec<HighlightEvent> = match fresh.highlight(&cfg.main, src, None, None, move |name| if name == "arith" { injected } else { None }) { Ok(it) => it.flatten().collect(), Err(_) => vec![] };
        if !same_events(&fresh_events, &events) { fail(res, "reused-highlighter-differs-from-fresh", format!("reused: {} | fresh: {}", render_events(&events, &cfg.names), render_events(&fresh_events, &cfg.names))); }
    }
    // our own view of the parent tree
    let mut parser = Parser::new();
    parser.set_language(parent_lang).unwrap();
    let tree = parser.parse(src, None).unwrap();
    let xt = XTree::build(&tree);
    let kind = |i: usize| parent_lang.node_kind_for_id(xt.nodes[i].kind_id).unwrap_or("?");
    let content: Vec<(usize, usize)> = if cfg.injected.is_some() { (0..xt.nodes.len()).filter(|&i| kind(i) == "code").map(|i| (xt.nodes[i].start, xt.nodes[i].end)).collect() } else { vec![] };
    // event stream invariants
    let mut pos = 0usize;
    let mut stack: Vec<Highlight> = vec![];
    let mut open_at: Vec<usize> = vec![];
    let mut top_at: Vec<Option<usize>> = vec![None; src.len()];
    let mut any = false;
    for e in &events {
        match *e {
            HighlightEvent::HighlightStart(h) => {
                stack.push(h); any = true; open_at.push(pos);
                // every highlighted node of these configurations is a leaf, so highlights never nest - except that a token of a
                // COMBINED injection may run across the gap between two content nodes (its halves are adjacent in the injected
                // layer's text), and the parent layer's own highlights inside the gap then open below it
                let is_arith = |h: &Highlight| cfg.names.get(h.0).map(|n| n.starts_with("arith")).unwrap_or(false);
                let in_gap = !content.iter().any(|&(s, e2)| s <= pos && pos < e2) && content.iter().any(|&(_, e2)| e2 <= pos) && content.iter().any(|&(s, _)| s > pos);
                let seam_token = cfg.name == "tmpl-combined" && stack.len() == 2 && is_arith(&stack[0]) && !is_arith(&stack[1]) && in_gap;
                if stack.len() > 1 && !seam_token { fail(res, "highlights-nest-although-only-leaves-are-highlighted", format!("at byte {} the open highlights are {:?}", pos, stack.iter().map(|h| cfg.names.get(h.0).copied().unwrap_or("?")).collect::<Vec<_>>())); }
            }
            HighlightEvent::HighlightEnd => {
                let Some(h) = stack.pop() else { fail(res, "highlight-end-without-start", format!("at byte {}", pos)); return; };
                let s0 = open_at.pop().unwrap_or(0);
                // a highlight of the parent language covers exactly one leaf of the parent tree
                let is_injected = cfg.names.get(h.0).map(|n| n.starts_with("arith")).unwrap_or(false);
                // (only with the full name list can a highlight index be attributed to a language)
                if variant == 0 && !is_injected && !xt.nodes.iter().any(|n| n.children.is_empty() && n.start == s0 && n.end == pos) {
                    fail(res, "highlight-span-is-not-a-node", format!("highlight {:?} covers {}..{} which is not the range of a leaf node", cfg.names.get(h.0), s0, pos));
                }
            }
            HighlightEvent::Source { start, end } => {
                if start != pos || end < start || end > src.len() { fail(res, "source-spans-not-contiguous", format!("span {}..{} after position {} (len {})", start, end, pos, src.len())); return; }
                for b in start..end { top_at[b] = stack.last().map(|h| h.0); }
                if variant == 0 && end > start && stack.iter().any(|h| cfg.names.get(h.0).map(|n| n.starts_with("arith")).unwrap_or(false)) {
                    // plain injections: inside one content node; combined injections: a token may legitimately span the seam
                    // between two content nodes, so only its start and its end have to lie in content
                    let inside_one = content.iter().any(|&(s, e2)| s <= start && end <= e2);
                    let ends_inside = content.iter().any(|&(s, e2)| s <= start && start < e2) && content.iter().any(|&(s, e2)| s < end && end <= e2);
                    // (a span of the PARENT layer inside the gap that a seam-spanning token of a combined injection runs across)
                    let gap_span = cfg.name == "tmpl-combined" && !content.iter().any(|&(s, e2)| start < e2 && end > s) && content.iter().any(|&(_, e2)| e2 <= start) && content.iter().any(|&(s, _)| s >= end);
                    if !(inside_one || (cfg.name == "tmpl-combined" && ends_inside) || gap_span) { fail(res, "injected-highlight-outside-content", format!("span {}..{} is highlighted by the injected language but the injection content nodes are {:?}", start, end, content)); }
                }
                pos = end;
            }
        }
    }
    if pos != src.len() { fail(res, "source-not-covered", format!("spans end at {} of {}", pos, src.len())); }
    if !stack.is_empty() { fail(res, "highlights-left-open", format!("{} highlights still open at the end", stack.len())); }
    if any { res.nontrivial += 1; }
    res.outcome(events.len() as u64);
    // locals: a reference resolved to an earlier definition in an enclosing scope is highlighted like the definition
    if cfg.name == "stmts" && (variant == 0 || variant >= 3) && !xt.has_error_or_missing() {
        let idx_of = |n: &str| cfg.names.iter().position(|x| *x == n);
        // definitions in document order: (scope node index or root, name text, start, highlight)
        let scope_of = |i: usize| -> usize { let mut p = xt.nodes[i].parent; while let Some(q) = p { if kind(q) == "block" || kind(q) == "fn_def" { return q; } p = xt.nodes[q].parent; } 0 };
        let mut defs: Vec<(usize, &[u8], usize, Option<usize>)> = vec![];
        for i in 0..xt.nodes.len() {
            let n = &xt.nodes[i];
            let is_let_name = kind(i) == "name";
            let is_param = kind(i) == "identifier" && n.parent.map(|p| kind(p) == "params").unwrap_or(false);
            if is_let_name || is_param {
                let own = idx_of(if is_let_name { "definition.var" } else { "definition.param" });
                defs.push((scope_of(i), &src[n.start..n.end], n.start, own));
                // the definition itself is displayed with its own highlight (never with that of an outer definition of the
                // same name it would resolve to as a reference)
                if let Some(own) = own { if n.end > n.start && top_at[n.start] != Some(own) { fail(res, "local-definition-not-highlighted-as-itself", format!("definition at {}..{} should carry {:?} but carries {:?}", n.start, n.end, cfg.names.get(own), top_at[n.start].and_then(|h| cfg.names.get(h)))); } }
            }
        }
        for i in 0..xt.nodes.len() {
            let n = &xt.nodes[i];
            if kind(i) != "identifier" || n.end == n.start { continue; }
            if n.parent.map(|p| kind(p) == "params").unwrap_or(false) { continue; }
            // enclosing scopes, innermost first
            let mut scopes = vec![];
            let mut p = n.parent;
            while let Some(q) = p { if kind(q) == "block" || kind(q) == "fn_def" { scopes.push(q); } p = xt.nodes[q].parent; }
            scopes.push(0);
            let name = &src[n.start..n.end];
            let mut resolved = None;
            for s in scopes { if let Some(d) = defs.iter().rev().find(|d| d.0 == s && d.1 == name && d.2 < n.start) { resolved = Some(d.3); break; } }
            // a definition whose highlight name is not recognised has no highlight: the reference then keeps its own
            if let Some(want) = resolved.map(|w: Option<usize>| w.or(idx_of("variable")).unwrap()) {
                // a function-position identifier keeps competing highlights; only plain variables are asserted
                let plain = !n.parent.map(|p| (kind(p) == "call" && xt.nodes[p].children.first() == Some(&i)) || kind(p) == "fn_def").unwrap_or(false);
                if plain && top_at[n.start] != Some(want) { fail(res, "local-reference-not-highlighted-like-definition", format!("identifier at {}..{} resolves to a definition highlighted {:?} but carries {:?}", n.start, n.end, cfg.names.get(want), top_at[n.start].and_then(|h| cfg.names.get(h)))); }
            }
        }
    }
    // HTML
    let injected = cfg.injected.as_ref();
    if let Ok(it) = hl.highlight(&cfg.main, src, None, None, move |name| if name == "arith" { injected } else { None }) {
        let mut r = HtmlRenderer::new();
        let names = cfg.names.clone();
        if r.render(it, src, &|h: Highlight, out: &mut Vec<u8>| { out.extend_from_slice(format!("class=\"{}\"", names[h.0]).as_bytes()); }).is_ok() {
            let html = String::from_utf8_lossy(&r.html).to_string();
            let got = collapse_fffd(&strip_html(&html));
            let mut want: String = String::from_utf8_lossy(src).chars().filter(|&c| c != '\r').collect();
            if !want.ends_with('\n') { want.push('\n'); }
            let want = collapse_fffd(&want);
            if got != want {
                // Known finding: when the source already ends in a newline that lies inside a highlighted span, the renderer
                // re-opens the span after the newline and then appends another newline.
                let fp = if got == format!("{}\n", want) && String::from_utf8_lossy(src).ends_with('\n') { "html-extra-newline-after-highlighted-final-newline" } else { "html-does-not-reproduce-source" };
                fail(res, fp, format!("stripped HTML {:?} expected {:?}", got, want));
            }
            let joined: String = r.lines().collect();
            if joined != html { fail(res, "html-lines-do-not-partition-output", "concatenated lines() differ from html".into()); }
        } else { fail(res, "html-render-error", "render failed".into()); }
    }
}

// ---- the C interface (ts_highlighter_*): one TSHighlighter and ONE output buffer reused across all documents ---------------
/// Every document goes through `ts_highlighter_highlight` into the same `TSHighlightBuffer`; what the buffer then holds
/// (content, length, line offsets) must equal what the Rust path (`Highlighter` + `HtmlRenderer` with the same attribute
/// strings) produces for that document alone. After every document the empty document is rendered into the same buffer too.
fn check_c_api(ctx: &Ctx, stmts: &tree_sitter::Language, docs: &[Vec<u8>], idx: &mut usize, res: &mut ShardResult) {
    use std::ffi::CString;
    use tree_sitter_highlight::c as capi;
    let nm = names(0);
    let name_c: Vec<CString> = nm.iter().map(|n| CString::new(*n).unwrap()).collect();
    let attr_c: Vec<CString> = nm.iter().map(|n| CString::new(format!("class=\"{}\"", n)).unwrap()).collect();
    let name_p: Vec<*const std::os::raw::c_char> = name_c.iter().map(|c| c.as_ptr()).collect();
    let attr_p: Vec<*const std::os::raw::c_char> = attr_c.iter().map(|c| c.as_ptr()).collect();
    let (lang_name, scope) = (CString::new("stmts").unwrap(), CString::new("source.stmts").unwrap());
    let mut cfg = HighlightConfiguration::new(stmts.clone(), "stmts", STMTS_HL, "", STMTS_LOCALS).expect("stmts highlight config");
    cfg.configure(&nm);
    unsafe {
        let h = capi::ts_highlighter_new(name_p.as_ptr(), attr_p.as_ptr(), nm.len() as u32);
        let rc = capi::ts_highlighter_add_language(h, lang_name.as_ptr(), scope.as_ptr(), std::ptr::null(), stmts.clone(), STMTS_HL.as_ptr().cast(), std::ptr::null(), STMTS_LOCALS.as_ptr().cast(), STMTS_HL.len() as u32, 0, STMTS_LOCALS.len() as u32);
        if !matches!(rc, capi::ErrorCode::Ok) { res.violation("ENGINE-c-api-add-language", "ts_highlighter_add_language failed".into(), json!({})); return; }
        let buf = capi::ts_highlight_buffer_new();
        let mut rust_hl = Highlighter::new();
        let empty: Vec<u8> = vec![];
        for d in docs {
            *idx += 1;
            if !ctx.mine(*idx) { continue; }
            for src in [d, &empty] {
                crate::case!("{}", case_json("stmts-c-api", 0, src));
                res.transitions += 1;
                let rc = capi::ts_highlighter_highlight(h, scope.as_ptr(), src.as_ptr().cast(), src.len() as u32, buf, std::ptr::null());
                let len = capi::ts_highlight_buffer_len(buf) as usize;
                let got: Vec<u8> = if len == 0 { vec![] } else { std::slice::from_raw_parts(capi::ts_highlight_buffer_content(buf), len).to_vec() };
                let nlines = capi::ts_highlight_buffer_line_count(buf) as usize;
                let offs: Vec<u32> = if nlines == 0 { vec![] } else { std::slice::from_raw_parts(capi::ts_highlight_buffer_line_offsets(buf), nlines).to_vec() };
                // the Rust path for this document alone
                let mut r = HtmlRenderer::new();
                let want = match rust_hl.highlight(&cfg, src, None, None, |_| None) {
                    Ok(it) => { let attrs: Vec<Vec<u8>> = nm.iter().map(|n| format!("class=\"{}\"", n).into_bytes()).collect(); if r.render(it, src, &|hh: Highlight, out: &mut Vec<u8>| out.extend_from_slice(&attrs[hh.0])).is_ok() { Some((r.html.clone(), r.line_offsets.clone())) } else { None } }
                    Err(_) => None,
                };
                match (matches!(rc, capi::ErrorCode::Ok), want) {
                    (true, Some((html, lines))) => {
                        if got != html || offs != lines {
                            res.violation("c-api-buffer-differs-from-rust-rendering", format!("source {:?}: buffer holds {:?} (line offsets {:?}), the Rust renderer gives {:?} ({:?})", String::from_utf8_lossy(src), String::from_utf8_lossy(&got), offs, String::from_utf8_lossy(&html), lines), case_json("stmts-c-api", 0, src));
                        }
                        if !got.is_empty() { res.nontrivial += 1; }
                    }
                    (false, None) => {}
                    (ok, w) => res.violation("c-api-status-differs-from-rust", format!("source {:?}: C API ok={} but the Rust path {}", String::from_utf8_lossy(src), ok, if w.is_some() { "renders" } else { "fails" }), case_json("stmts-c-api", 0, src)),
                }
                if res.too_many() { break; }
            }
            res.states += 1;
        }
        capi::ts_highlight_buffer_delete(buf);
        capi::ts_highlighter_delete(h);
    }
}

// ---- three layers: tmpl -> (all text chunks combined) arith -> (each parenthesised group, children included) stmts ----------
// The arith layer has several included ranges (the text chunks); a paren node that starts in one chunk and ends in a later
// one spans the directive between them, and the stmts layer injected for it must still stay inside the text chunks.
const NESTED_TMPL_INJ: &str = "((text) @injection.content (#set! injection.language \"arith\") (#set! injection.combined))";
const NESTED_ARITH_INJ: &str = "((paren) @injection.content (#set! injection.language \"stmts\") (#set! injection.include-children))";

struct Nested { main: HighlightConfiguration, arith: HighlightConfiguration, stmts: HighlightConfiguration, names: Vec<&'static str> }

fn make_nested(variant: usize, stmts: &tree_sitter::Language, arith: &tree_sitter::Language, tmpl: &tree_sitter::Language) -> Nested {
    let nm = names(variant);
    let mut main = HighlightConfiguration::new(tmpl.clone(), "tmpl", TMPL_HL, NESTED_TMPL_INJ, "").expect("tmpl nested config");
    main.configure(&nm);
    let mut a = HighlightConfiguration::new(arith.clone(), "arith", ARITH_HL, NESTED_ARITH_INJ, "").expect("arith nested config");
    a.configure(&nm);
    let mut st = HighlightConfiguration::new(stmts.clone(), "stmts", STMTS_HL, "", STMTS_LOCALS).expect("stmts nested config");
    st.configure(&nm);
    Nested { main, arith: a, stmts: st, names: nm }
}

fn nested_docs(k: usize) -> Vec<Vec<u8>> {
    let mut out: Vec<Vec<u8>> = ["(1+ <% x %> 2)", "(a <% 1 %> b) c", "( <% x %> )", "((1 <% y %> 2) <% z %> 3)", "(1 <%= q %> 2 <% r %> 3)", "[ (a <% 11 %> b 22) ]", "(1 <% x", "<% x %>(1)<% y %>(2 <% z %> 3)"].iter().map(|s| s.as_bytes().to_vec()).collect();
    let pieces: [&str; 7] = ["(", ")", "1", "a", " ", "<% x %>", "<%= 7 %>"];
    for len in 1..=k { crate::util::for_each_seq(pieces.len(), len, |ix| { let mut s = String::new(); for &i in ix { s.push_str(pieces[i]); } out.push(s.into_bytes()); }); }
    out
}

fn check_nested(n: &Nested, hl: &mut Highlighter, tmpl_lang: &tree_sitter::Language, variant: usize, src: &[u8], res: &mut ShardResult) {
    crate::case!("{}", case_json("tmpl-nested", variant, src));
    res.transitions += 1;
    let fail = |res: &mut ShardResult, fp: &str, msg: String| res.violation(fp, format!("config tmpl-nested names {} source {:?}: {}", variant, String::from_utf8_lossy(src), msg), case_json("tmpl-nested", variant, src));
    let (a, st) = (&n.arith, &n.stmts);
    let events: Vec<HighlightEvent> = {
        let it = match hl.highlight(&n.main, src, None, None, move |name| match name { "arith" => Some(a), "stmts" => Some(st), _ => None }) { Ok(it) => it, Err(e) => { fail(res, "highlight-error", format!("{:?}", e)); return; } };
        let mut v = vec![];
        for e in it { match e { Ok(e) => v.push(e), Err(e) => { fail(res, "highlight-error", format!("{:?}", e)); return; } } if v.len() > 100_000 { fail(res, "highlight-does-not-terminate", "more than 100000 events".into()); return; } }
        v
    };
    {
        let mut fresh = Highlighter::new();
        let fresh_events: Vec<HighlightEvent> = match fresh.highlight(&n.main, src, None, None, move |name| match name { "arith" => Some(a), "stmts" => Some(st), _ => None }) { Ok(it) => it.flatten().collect(), Err(_) => vec![] };
        if !same_events(&fresh_events, &events) { fail(res, "reused-highlighter-differs-from-fresh", format!("reused: {} | fresh: {}", render_events(&events, &n.names), render_events(&fresh_events, &n.names))); }
    }
    let mut parser = Parser::new();
    parser.set_language(tmpl_lang).unwrap();
    let xt = XTree::build(&parser.parse(src, None).unwrap());
    let kind = |i: usize| tmpl_lang.node_kind_for_id(xt.nodes[i].kind_id).unwrap_or("?");
    let texts: Vec<(usize, usize)> = (0..xt.nodes.len()).filter(|&i| kind(i) == "text").map(|i| (xt.nodes[i].start, xt.nodes[i].end)).collect();
    let parent_only = ["text", "tag"];
    let mut pos = 0usize;
    let mut stack: Vec<(Highlight, usize)> = vec![];
    let mut any_inner = false;
    for e in &events {
        match *e {
            HighlightEvent::HighlightStart(h) => stack.push((h, pos)),
            HighlightEvent::HighlightEnd => {
                let Some((h, s0)) = stack.pop() else { fail(res, "highlight-end-without-start", format!("at byte {}", pos)); return; };
                // With the full name list every name other than text/tag belongs to an injected layer, and the injected
                // layers only ever see text chunks. A token of a layer with several ranges may run across the gap between
                // two chunks (its two halves are adjacent in that layer's text), so what is asserted is that every highlighted
                // token of an injected layer begins inside a text chunk and ends inside one: nothing that lies in a directive
                // is a token of an injected layer.
                if variant == 0 && pos > s0 && n.names.get(h.0).map(|x| !parent_only.contains(x)).unwrap_or(false) {
                    any_inner = true;
                    let starts_in = texts.iter().any(|&(s, e2)| s <= s0 && s0 < e2);
                    let ends_in = texts.iter().any(|&(s, e2)| s < pos && pos <= e2);
                    if !(starts_in && ends_in) {
                        fail(res, "injected-highlight-outside-content", format!("{}..{} is highlighted {:?} by an injected layer but the text chunks (the only injected content) are {:?}", s0, pos, n.names.get(h.0), texts));
                    }
                }
            }
            HighlightEvent::Source { start, end } => {
                if start != pos || end < start || end > src.len() { fail(res, "source-spans-not-contiguous", format!("span {}..{} after position {} (len {})", start, end, pos, src.len())); return; }
                pos = end;
            }
        }
    }
    if pos != src.len() { fail(res, "source-not-covered", format!("spans end at {} of {}", pos, src.len())); }
    if !stack.is_empty() { fail(res, "highlights-left-open", format!("{} highlights still open at the end", stack.len())); }
    if any_inner { res.nontrivial += 1; }
    res.outcome(events.len() as u64 + 1_000_000);
}

pub fn worker(ctx: &Ctx, res: &mut ShardResult) {
    let stmts_z = crate::zoo::stmts();
    let tmpl_z = crate::zoo::tmpl();
    let stmts = build_info(&stmts_z);
    let arith = build_info(&crate::zoo::arith());
    let tmpl = crate::wf::LangInfo::new("tmpl", &crate::lang::build(&tmpl_z.spec, tree_sitter_generate::OptLevel::default()).unwrap().language, &serde_json::Value::Null, b"", true);
    let k = if ctx.mini() { 1 } else if ctx.quick() { 3 } else { 4 };
    let mut idx = 0usize;
    let mut hl = Highlighter::new();
    let inj_variants = INJ_VARIANTS;
    {
        let mut docs = crate::docs::docs(&stmts_z, k);
        docs.extend(byte_atom_strings(3));
        check_c_api(ctx, &stmts.language, &docs, &mut idx, res);
        if res.too_many() { return; }
    }
    for variant in 0..6usize {
        let nm = names(variant);
        let mut cfgs: Vec<(Cfg, tree_sitter::Language, Vec<Vec<u8>>)> = vec![];
        let mut main = HighlightConfiguration::new(stmts.language.clone(), "stmts", STMTS_HL, "", locals_for(variant)).expect("stmts highlight config");
        main.configure(&nm);
        let mut docs = crate::docs::docs(&stmts_z, k);
        docs.extend(byte_atom_strings(4));
        cfgs.push((Cfg { name: "stmts", main, injected: None, names: nm.clone() }, stmts.language.clone(), docs));
        for (vi, inj) in inj_variants.iter().enumerate() {
            if variant >= 3 { break; } // the definition-name variants concern the stmts configuration only
            let mut main = HighlightConfiguration::new(tmpl.language.clone(), "tmpl", TMPL_HL, inj, "").expect("tmpl highlight config");
            main.configure(&nm);
            let mut a = HighlightConfiguration::new(arith.language.clone(), "arith", ARITH_HL, "", "").expect("arith highlight config");
            a.configure(&nm);
            let mut docs = crate::docs::docs(&tmpl_z, k + 1);
            docs.extend(byte_atom_strings(3).into_iter().map(|mut d| { let mut v = b"<% ".to_vec(); v.append(&mut d); v.extend_from_slice(b" %>x"); v }));
            cfgs.push((Cfg { name: ["tmpl-plain", "tmpl-include-children", "tmpl-combined"][vi], main, injected: Some(a), names: nm.clone() }, tmpl.language.clone(), docs));
        }
        for (cfg, lang, docs) in &cfgs {
            for d in docs {
                idx += 1;
                if !ctx.mine(idx) { continue; }
                res.states += 1;
                check_source(cfg, &mut hl, lang, variant, d, res);
                if res.too_many() { return; }
            }
            if res.samples.len() < 2 { res.sample(case_json(cfg.name, variant, &docs[docs.len() / 3])); }
            if ctx.out_of_time() { res.caps.push("wall-clock budget reached".into()); return; }
        }
        if variant >= 3 { continue; }
        let nested = make_nested(variant, &stmts.language, &arith.language, &tmpl.language);
        for d in nested_docs(if ctx.mini() { 2 } else if ctx.quick() { 4 } else { 5 }) {
            idx += 1;
            if !ctx.mine(idx) { continue; }
            res.states += 1;
            check_nested(&nested, &mut hl, &tmpl.language, variant, &d, res);
            if res.too_many() { return; }
        }
    }
}

fn byte_atom_strings(n: usize) -> Vec<Vec<u8>> {
    let atoms: Vec<&[u8]> = vec![b"a", b";", b"\r", b"\r\n", b"\n", b"\0", b"\xff", b"\xc3", "é".as_bytes(), b"<", b"&", b"\"", b" "];
    let mut out = vec![];
    for len in 1..=n { crate::util::for_each_seq(atoms.len(), len, |ix| { let mut s = vec![]; for &i in ix { s.extend_from_slice(atoms[i]); } out.push(s); }); }
    out
}

/// Re-run one recorded (configuration, name list, source) outside the explorer and print the event stream.
pub fn replay(case: &Value) -> Vec<String> {
    let case = if case.get("kind").and_then(|k| k.as_str()) == Some("crash") { &case["case"] } else { case };
    let (Some(cfg_name), Some(variant)) = (case["config"].as_str(), case["names_variant"].as_u64()) else { return vec![format!("not a C17 case: {}", case)] };
    let variant = variant as usize;
    let src = crate::util::bytes_from_json(&case["source"]);
    let stmts = build_info(&crate::zoo::stmts());
    let arith = build_info(&crate::zoo::arith());
    let tmpl_lang = crate::lang::build(&crate::zoo::tmpl().spec, tree_sitter_generate::OptLevel::default()).unwrap().language;
    let nm = names(variant);
    let mut hl = Highlighter::new();
    let mut res = ShardResult::new();
    let print_events = |main: &HighlightConfiguration, a: Option<&HighlightConfiguration>, st: Option<&HighlightConfiguration>| {
        let mut h2 = Highlighter::new();
        let evs: Vec<HighlightEvent> = match h2.highlight(main, &src, None, None, move |name| match name { "arith" => a, "stmts" => st, _ => None }) { Ok(it) => it.flatten().collect(), Err(_) => vec![] };
        {
            let mut line = String::new();
            for e in evs { match e { HighlightEvent::HighlightStart(h) => line.push_str(&format!("<{}>", nm.get(h.0).copied().unwrap_or("?"))), HighlightEvent::HighlightEnd => line.push_str("</>"), HighlightEvent::Source { start, end } => line.push_str(&format!("[{}..{} {:?}]", start, end, String::from_utf8_lossy(&src[start..end.min(src.len())]))) } }
            println!("events: {}", line);
        }
    };
    if cfg_name == "tmpl-nested" {
        let n = make_nested(variant, &stmts.language, &arith.language, &tmpl_lang);
        print_events(&n.main, Some(&n.arith), Some(&n.stmts));
        check_nested(&n, &mut hl, &tmpl_lang, variant, &src, &mut res);
    } else if cfg_name == "stmts-c-api" {
        // the recorded document is rendered into a buffer that held another document before (and the empty one after it)
        let ctx = Ctx { id: "C17".into(), tier: "quick".into(), seed: 0, shard: 0, nshards: 1, deadline: std::time::Instant::now() + std::time::Duration::from_secs(600) };
        let mut idx = 0usize;
        check_c_api(&ctx, &stmts.language, &[b"let a = 1;\nb;\n".to_vec(), src.clone()], &mut idx, &mut res);
    } else if cfg_name == "stmts" {
        let mut main = HighlightConfiguration::new(stmts.language.clone(), "stmts", STMTS_HL, "", locals_for(variant)).expect("stmts highlight config");
        main.configure(&nm);
        print_events(&main, None, None);
        check_source(&Cfg { name: "stmts", main, injected: None, names: nm.clone() }, &mut hl, &stmts.language, variant, &src, &mut res);
    } else {
        let Some(vi) = ["tmpl-plain", "tmpl-include-children", "tmpl-combined"].iter().position(|n| *n == cfg_name) else { return vec![format!("unknown configuration {}", cfg_name)] };
        let mut main = HighlightConfiguration::new(tmpl_lang.clone(), "tmpl", TMPL_HL, INJ_VARIANTS[vi], "").expect("tmpl highlight config");
        main.configure(&nm);
        let mut a = HighlightConfiguration::new(arith.language.clone(), "arith", ARITH_HL, "", "").expect("arith highlight config");
        a.configure(&nm);
        print_events(&main, Some(&a), None);
        check_source(&Cfg { name: ["tmpl-plain", "tmpl-include-children", "tmpl-combined"][vi], main, injected: Some(a), names: nm.clone() }, &mut hl, &tmpl_lang, variant, &src, &mut res);
    }
    res.violations.iter().map(|v| format!("{}: {}", v.fingerprint, v.what)).collect()
}
