//! C06: node and cursor navigation agree with the single tree obtained from one depth-first walk.
use crate::checks::c_hist::build_info;
use crate::run::{CheckMeta, Ctx, ShardResult};
use crate::text::{self, LineTable};
use crate::wf::LangInfo;
use crate::xtree::XTree;
use serde_json::{json, Value};
use tree_sitter::{Node, Parser, Point, Tree, TreeCursor};

pub fn params(tier: &str) -> (usize, usize) {
    // (lexeme-string length k, max document length for full (s,e) range enumeration)
    if tier == "mini" { (1, 12) } else if tier == "quick" { (3, 16) } else { (4, 24) }
}

pub fn meta(tier: &str) -> CheckMeta {
    let (k, full) = params(tier);
    CheckMeta {
        id: "C06", level: "model_checking",
        rule: "E-box: for every tree (seeds + all strings of <=k lexemes of every zoo language, valid and erroneous; trees after one edit+re-parse; trees parsed with 4-5 included-range lists per document (holes inside and between nodes); wide documents with 250..300 raw children; multi-line and zero-width nodes) and for EVERY node and EVERY argument: child/named_child/parent/siblings/field lookups/first_child_for_byte/descendant_for_byte+point_range/child_with_descendant/descendant_count/to_sexp and all cursor moves (first/last child, next/previous sibling, parent, goto_descendant from every position, first_child_for_byte/point, depth, descendant_index, field, reset, reset_to, cursors rooted at inner nodes) compared with the explicit tree from one cursor walk. Non-trivial = tree with more than 3 nodes.",
        assumptions: vec!["descendant_for_*_range is asserted up to the zero-width ambiguity the documentation leaves open".into()],
        exhaustive: true,
        bounds: json!({"start_doc_lexemes_k": k, "full_range_enumeration_up_to_bytes": full, "wide_children": [250,251,252,253,254,255,256,257,300]}),
    }
}

fn case_json(lang: &str, text: &[u8], edit: Option<&text::Edit>) -> Value {
    json!({"lang": lang, "doc": crate::util::bytes_json(text), "edit": edit.map(|e| e.to_json())})
}

struct Chk<'a, 't> {
    xt: &'a XTree,
    nodes: Vec<Node<'t>>,
    errs: Vec<(String, String)>,
}

impl<'a, 't> Chk<'a, 't> {
    fn fail(&mut self, fp: &str, msg: String) {
        // at most 2 per fingerprint per tree, so that one (possibly known) kind of failure cannot hide another
        if self.errs.iter().filter(|(f, _)| f == fp).count() < 2 { self.errs.push((fp.to_string(), msg)); }
    }
    fn same(&self, n: &Node, i: usize) -> bool {
        let x = &self.xt.nodes[i];
        n.id() == x.id && n.start_byte() == x.start && n.end_byte() == x.end && n.kind_id() == x.kind_id
    }
    fn expect(&mut self, fp: &str, what: &str, got: Option<Node<'t>>, want: Option<usize>) {
        let ok = match (&got, want) { (None, None) => true, (Some(n), Some(i)) => self.same(n, i), _ => false };
        if !ok {
            let g = got.map(|n| format!("{}@{}..{}", n.kind(), n.start_byte(), n.end_byte())).unwrap_or("None".into());
            let w = want.map(|i| format!("#{} {}", i, self.xt.brief(i))).unwrap_or("None".into());
            self.fail(fp, format!("{}: got {} want {}", what, g, w));
        }
    }
}

/// Collect Node handles in the same preorder as the XTree by a second, independent traversal using Node::child.
fn collect_nodes<'t>(root: Node<'t>, out: &mut Vec<Node<'t>>) {
    out.push(root);
    let n = root.child_count();
    for k in 0..n { if let Some(c) = root.child(k as u32) { collect_nodes(c, out); } }
}

fn decode_first_char(text: &[u8], at: usize) -> i32 {
    let s = &text[at..];
    if s.is_empty() { return 0; }
    let b0 = s[0];
    if b0 < 0x80 { return b0 as i32; }
    let (len, init) = if b0 >> 5 == 0b110 { (2, (b0 & 0x1f) as u32) } else if b0 >> 4 == 0b1110 { (3, (b0 & 0x0f) as u32) } else if b0 >> 3 == 0b11110 { (4, (b0 & 0x07) as u32) } else { return -1 };
    if s.len() < len { return -1; }
    let mut c = init;
    for i in 1..len { if s[i] >> 6 != 0b10 { return -1; } c = (c << 6) | (s[i] & 0x3f) as u32; }
    match std::str::from_utf8(&s[..len]) { Ok(_) => c as i32, Err(_) => -1 }
}

fn render_char(c: i32) -> String {
    match c {
        -1 => "INVALID".into(), 0 => "'\\0'".into(), 10 => "'\\n'".into(), 9 => "'\\t'".into(), 13 => "'\\r'".into(),
        c if c > 0 && c < 128 && (c as u8 as char).is_ascii_graphic() || c == 32 => format!("'{}'", c as u8 as char),
        c => format!("{}", c),
    }
}

fn mask_unexpected(s: &str) -> String {
    let mut out = String::new();
    let mut rest = s;
    while let Some(p) = rest.find("(UNEXPECTED ") {
        out.push_str(&rest[..p]);
        out.push_str("(UNEXPECTED _)");
        let after = &rest[p + 12..];
        // the character is rendered as 'c', '\\x', INVALID or a decimal number, followed by ')'
        // ('\0' '\n' '\t' '\r' are four characters long; every other quoted character, the backslash and the quote included, three)
        let b = after.as_bytes();
        let end = if after.starts_with('\'') { if b.len() >= 4 && b[1] == b'\\' && matches!(b[2], b'0' | b'n' | b't' | b'r') && b[3] == b'\'' { 4 } else { 3 } } else { after.find(')').unwrap_or(after.len()) };
        let end = end.min(after.len());
        rest = &after[end..];
        if rest.starts_with(')') { rest = &rest[1..]; }
    }
    out.push_str(rest);
    out
}

fn sexp(xt: &XTree, lang: &tree_sitter::Language, text: &[u8], i: usize, out: &mut String) {
    let n = &xt.nodes[i];
    let kind = lang.node_kind_for_id(n.kind_id).unwrap_or("?");
    if n.is_error && n.children.is_empty() && n.end > n.start {
        out.push_str("(UNEXPECTED ");
        out.push_str(&render_char(decode_first_char(text, n.start)));
    } else if n.missing {
        out.push_str("(MISSING ");
        if n.named { out.push_str(kind); } else { out.push('"'); out.push_str(kind); out.push('"'); }
    } else {
        out.push('(');
        out.push_str(kind);
    }
    for &c in &n.children {
        let ch = &xt.nodes[c];
        if !(ch.named || ch.missing) { continue; }
        out.push(' ');
        if ch.field_id != 0 { out.push_str(lang.field_name_for_id(ch.field_id).unwrap_or("?")); out.push_str(": "); }
        sexp(xt, lang, text, c, out);
    }
    out.push(')');
}

pub fn check_tree(info: &LangInfo, text: &[u8], tree: &Tree, full_limit: usize) -> Vec<(String, String)> {
    let xt = XTree::build(tree);
    let lang = &info.language;
    let mut nodes = Vec::new();
    collect_nodes(tree.root_node(), &mut nodes);
    let mut c = Chk { xt: &xt, nodes, errs: vec![] };
    if c.nodes.len() != xt.nodes.len() {
        c.fail("walk-vs-child-enumeration", format!("cursor walk found {} nodes, Node::child recursion {}", xt.nodes.len(), c.nodes.len()));
        return c.errs;
    }
    for i in 0..xt.nodes.len() { let n = c.nodes[i]; if !c.same(&n, i) { c.fail("walk-vs-child-enumeration", format!("node #{} differs between cursor walk and Node::child recursion", i)); return c.errs; } }
    let lt = LineTable::new(text);
    let nfields = lang.field_count() as u16;
    let len = text.len();
    let step = if len <= full_limit { 1 } else { (len / full_limit).max(2) };

    for i in 0..xt.nodes.len() {
        if c.errs.len() >= 40 { break; }
        let x = xt.nodes[i].clone();
        let n = c.nodes[i];
        let kids = x.children.clone();
        let named_kids: Vec<usize> = kids.iter().copied().filter(|&k| xt.nodes[k].named).collect();
        // children by index
        for (k, &ci) in kids.iter().enumerate() { c.expect("child", &format!("#{}.child({})", i, k), n.child(k as u32), Some(ci)); }
        c.expect("child", &format!("#{}.child({})", i, kids.len()), n.child(kids.len() as u32), None);
        for (k, &ci) in named_kids.iter().enumerate() { c.expect("named_child", &format!("#{}.named_child({})", i, k), n.named_child(k as u32), Some(ci)); }
        c.expect("named_child", &format!("#{}.named_child({})", i, named_kids.len()), n.named_child(named_kids.len() as u32), None);
        if n.child_count() as usize != kids.len() { c.fail("child_count", format!("#{} child_count {} vs {}", i, n.child_count(), kids.len())); }
        if n.named_child_count() != named_kids.len() { c.fail("named_child_count", format!("#{} named_child_count {} vs {}", i, n.named_child_count(), named_kids.len())); }
        if n.descendant_count() != xt.subtree_size(i) { c.fail("descendant_count", format!("#{} descendant_count {} vs {}", i, n.descendant_count(), xt.subtree_size(i))); }
        // parent and siblings
        c.expect("parent", &format!("#{}.parent()", i), n.parent(), x.parent);
        if let Some(p) = x.parent {
            let sibs = &xt.nodes[p].children;
            let pos = sibs.iter().position(|&s| s == i).unwrap();
            // Known limitation (see known_findings.json): the position-based Node::next_sibling cannot see a zero-width
            // sibling that starts exactly at this node's end; that specific shape gets its own fingerprint.
            let zw = |k: Option<usize>| k.map(|k| xt.nodes[k].start == xt.nodes[k].end && xt.nodes[k].start == x.end && x.end > x.start).unwrap_or(false);
            let want_next = sibs.get(pos + 1).copied();
            c.expect(if zw(want_next) { "next_sibling-zero-width-at-end" } else { "next_sibling" }, &format!("#{}.next_sibling()", i), n.next_sibling(), want_next);
            c.expect("prev_sibling", &format!("#{}.prev_sibling()", i), n.prev_sibling(), if pos > 0 { Some(sibs[pos - 1]) } else { None });
            let want_named = sibs[pos + 1..].iter().copied().find(|&s| xt.nodes[s].named);
            // the same limitation, when every sibling up to and including the wanted one is zero-width at this node's end
            let all_zw = want_named.map(|w| sibs[pos + 1..].iter().take_while(|&&s| s <= w).all(|&s| zw(Some(s)))).unwrap_or(false);
            c.expect(if all_zw { "next_named_sibling-zero-width-at-end" } else { "next_named_sibling" }, &format!("#{}.next_named_sibling()", i), n.next_named_sibling(), want_named);
            c.expect("prev_named_sibling", &format!("#{}.prev_named_sibling()", i), n.prev_named_sibling(), sibs[..pos].iter().rev().copied().find(|&s| xt.nodes[s].named));
        } else {
            c.expect("next_sibling", "root.next_sibling()", n.next_sibling(), None);
            c.expect("prev_sibling", "root.prev_sibling()", n.prev_sibling(), None);
        }
        // fields
        for f in 1..=nfields {
            let want = kids.iter().copied().find(|&k| xt.nodes[k].field_id == f);
            // Known limitation (see known_findings.json): a field on a HIDDEN rule that stays in the tree yields that node's
            // first visible child, even when the hidden rule's own production gives that child another field (which is what
            // the cursor and field_name_for_child report for it). Own fingerprint for exactly that shape: nestf `entry`,
            // answer = the child that carries the inner field `key`, asked for `item`.
            let got_f = n.child_by_field_id(f);
            let inner = info.name == "nestf" && n.kind() == "entry" && lang.field_name_for_id(f) == Some("item")
                && got_f.map(|g| kids.iter().any(|&k| c.same(&g, k) && lang.field_name_for_id(xt.nodes[k].field_id) == Some("key"))).unwrap_or(false);
            // ... and the related one: below an ERROR node (which has no field map of its own) the inner field `key` of the hidden
            // rule is still reported by the cursor, but child_by_field on the ERROR node finds nothing (thorough tier, '<a:a;').
            let under_error = info.name == "nestf" && n.is_error() && lang.field_name_for_id(f) == Some("key") && got_f.is_none();
            let fp_sfx = if inner { "-hidden-rule-with-inner-field" } else if under_error { "-inner-field-of-hidden-rule-under-error" } else { "" };
            c.expect(&format!("child_by_field_id{}", fp_sfx), &format!("#{}.child_by_field_id({})", i, f), got_f, want);
            if let Some(name) = lang.field_name_for_id(f) {
                c.expect(&format!("child_by_field_name{}", fp_sfx), &format!("#{}.child_by_field_name({})", i, name), n.child_by_field_name(name), want);
            }
        }
        for (k, &ci) in kids.iter().enumerate() {
            let want = if xt.nodes[ci].field_id != 0 { lang.field_name_for_id(xt.nodes[ci].field_id) } else { None };
            let got = n.field_name_for_child(k as u32);
            if got != want { c.fail("field_name_for_child", format!("#{}.field_name_for_child({}) = {:?}, cursor says {:?}", i, k, got, want)); }
        }
        for (k, &ci) in named_kids.iter().enumerate() {
            let want = if xt.nodes[ci].field_id != 0 { lang.field_name_for_id(xt.nodes[ci].field_id) } else { None };
            let got = n.field_name_for_named_child(k as u32);
            if got != want { c.fail("field_name_for_named_child", format!("#{}.field_name_for_named_child({}) = {:?}, cursor says {:?}", i, k, got, want)); }
        }
        // first child for byte: first child that contains or starts after b  <=>  first child with end > b
        let mut b = x.start.saturating_sub(1);
        while b <= x.end + 1 {
            let want = kids.iter().copied().find(|&k| xt.nodes[k].end > b);
            c.expect("first_child_for_byte", &format!("#{}.first_child_for_byte({})", i, b), n.first_child_for_byte(b), want);
            let wantn = named_kids.iter().copied().find(|&k| xt.nodes[k].end > b);
            c.expect("first_named_child_for_byte", &format!("#{}.first_named_child_for_byte({})", i, b), n.first_named_child_for_byte(b), wantn);
            b += step;
        }
        // smallest descendant for a range
        let mut s = x.start;
        while s <= x.end {
            let mut e = s;
            while e <= x.end {
                for named_only in [false, true] {
                    let got = if named_only { n.named_descendant_for_byte_range(s, e) } else { n.descendant_for_byte_range(s, e) };
                    let cands = expected_descendants(&xt, i, s, e, named_only);
                    let ok = match &got { Some(g) => cands.iter().any(|&k| c.same(g, k)), None => false };
                    if !ok {
                        let g = got.map(|n| format!("{}@{}..{}", n.kind(), n.start_byte(), n.end_byte())).unwrap_or("None".into());
                        c.fail(if named_only { "named_descendant_for_byte_range" } else { "descendant_for_byte_range" }, format!("#{}.descendant_for_byte_range({},{}) named={} got {} want one of {:?}", i, s, e, named_only, g, cands));
                    }
                    // point variant must agree with the byte variant
                    let (ps, pe) = (lt.point(s), lt.point(e));
                    let gotp = if named_only { n.named_descendant_for_point_range(ps, pe) } else { n.descendant_for_point_range(ps, pe) };
                    let okp = match &gotp { Some(g) => cands.iter().any(|&k| c.same(g, k)), None => false };
                    if !okp {
                        let g = gotp.map(|n| format!("{}@{}..{}", n.kind(), n.start_byte(), n.end_byte())).unwrap_or("None".into());
                        c.fail("descendant_for_point_range", format!("#{}.descendant_for_point_range({:?},{:?}) named={} got {} want one of {:?}", i, ps, pe, named_only, g, cands));
                    }
                }
                e += step;
            }
            s += step;
        }
        // child containing descendant, for every ancestor of i
        let mut below = i;
        let mut anc = x.parent;
        while let Some(a) = anc {
            let an = c.nodes[a];
            c.expect("child_with_descendant", &format!("#{}.child_with_descendant(#{})", a, i), an.child_with_descendant(n), Some(below));
            below = a;
            anc = xt.nodes[a].parent;
        }
        // rendering
        if x.named {
            let mut want = String::new();
            sexp(&xt, lang, text, i, &mut want);
            // the character shown in (UNEXPECTED c) is not part of the tree's structure: mask it on both sides
            let mut got = mask_unexpected(&n.to_sexp());
            let want = mask_unexpected(&want);
            // to_sexp deliberately also shows MISSING tokens that are hidden (no node of the tree stands for them):
            // where hook H2 reports such tokens below this node, their entries are taken out before comparing
            if x.hidden_missing > 0 { got = strip_hidden_missing(&got); }
            if got != want { c.fail("to_sexp", format!("#{}.to_sexp() = {} but the explicit tree renders as {}", i, got, want)); }
        }
    }
    check_cursor(&mut c, tree, &lt, step);
    c.errs
}

/// Nodes the documentation allows as "smallest node within #root spanning [s,e]": the deepest relevant node m with
/// m.start <= s < m.end && e <= m.end (such nodes form a chain), or a zero-width relevant node at s == e below it.
/// removes every " (MISSING _name)" / "(MISSING _name)" entry whose kind starts with an underscore (a hidden token)
fn strip_hidden_missing(s: &str) -> String {
    let mut out = String::new();
    let mut rest = s;
    while let Some(p) = rest.find("(MISSING _") {
        let end = rest[p..].find(')').map(|e| p + e + 1).unwrap_or(rest.len());
        let before = &rest[..p];
        out.push_str(before.strip_suffix(' ').unwrap_or(before));
        rest = &rest[end..];
    }
    out.push_str(rest);
    out
}

fn expected_descendants(xt: &XTree, root: usize, s: usize, e: usize, named_only: bool) -> Vec<usize> {
    let mut m = root;
    let mut cur = root;
    loop {
        let mut next = None;
        for &k in &xt.nodes[cur].children {
            let n = &xt.nodes[k];
            if n.start <= s && s < n.end && e <= n.end { next = Some(k); break; }
        }
        match next { Some(k) => { cur = k; if !named_only || xt.nodes[k].named { m = k; } } None => break }
    }
    let mut out = vec![m];
    if s == e {
        // zero-width nodes at s anywhere below the chain end (or its ancestors inside root) are acceptable answers too
        fn rec(xt: &XTree, i: usize, s: usize, named_only: bool, out: &mut Vec<usize>) {
            for &k in &xt.nodes[i].children {
                let n = &xt.nodes[k];
                if n.start == s && n.end == s && (!named_only || n.named) { out.push(k); }
                if n.start <= s && s <= n.end { rec(xt, k, s, named_only, out); }
            }
        }
        rec(xt, root, s, named_only, &mut out);
        // a node that merely touches s with its end is also documented as "spanning" an empty range
        fn touch(xt: &XTree, i: usize, s: usize, named_only: bool, out: &mut Vec<usize>) {
            for &k in &xt.nodes[i].children {
                let n = &xt.nodes[k];
                if n.start <= s && s <= n.end { if !named_only || n.named { out.push(k); } touch(xt, k, s, named_only, out); }
            }
        }
        let _ = touch;
    }
    out
}

fn cursor_at<'t>(tree: &'t Tree, idx: usize) -> TreeCursor<'t> { let mut cur = tree.walk(); cur.goto_descendant(idx); cur }

fn check_cursor(c: &mut Chk, tree: &Tree, lt: &LineTable, step: usize) {
    let xt = c.xt;
    let lang = tree.language();
    let total = xt.nodes.len();
    for i in 0..total {
        if c.errs.len() >= 40 { return; }
        let x = &xt.nodes[i];
        let cur = cursor_at(tree, i);
        let n = cur.node();
        if !c.same(&n, i) { c.fail("goto_descendant", format!("goto_descendant({}) from root lands on {}@{}..{}", i, n.kind(), n.start_byte(), n.end_byte())); continue; }
        if cur.depth() != x.depth { c.fail("cursor.depth", format!("at #{} depth {} want {}", i, cur.depth(), x.depth)); }
        if cur.descendant_index() != i { c.fail("cursor.descendant_index", format!("at #{} descendant_index {}", i, cur.descendant_index())); }
        let f = cur.field_id().map(|f| f.get()).unwrap_or(0);
        if f != x.field_id { c.fail("cursor.field_id", format!("at #{} (via goto_descendant) field {} but the walk saw {}", i, f, x.field_id)); }
        let fname = cur.field_name();
        let want_name = if x.field_id != 0 { lang.field_name_for_id(x.field_id) } else { None };
        if fname != want_name { c.fail("cursor.field_name", format!("at #{} field_name {:?} want {:?}", i, fname, want_name)); }
        // moves
        let mut m = cur.clone();
        let ok = m.goto_first_child();
        match x.children.first() { Some(&k) => { if !ok || !c.same(&m.node(), k) { c.fail("goto_first_child", format!("from #{}", i)); } } None => { if ok { c.fail("goto_first_child", format!("from leaf #{} returned true", i)); } } }
        let mut m = cur.clone();
        let ok = m.goto_last_child();
        match x.children.last() { Some(&k) => { if !ok || !c.same(&m.node(), k) { c.fail("goto_last_child", format!("from #{}: ok={} at {}@{}", i, ok, m.node().kind(), m.node().start_byte())); } else if m.descendant_index() != k { c.fail("goto_last_child.descendant_index", format!("from #{}: index {} want {}", i, m.descendant_index(), k)); } } None => { if ok { c.fail("goto_last_child", format!("from leaf #{} returned true", i)); } } }
        let mut m = cur.clone();
        let ok = m.goto_parent();
        match x.parent { Some(p) => { if !ok || !c.same(&m.node(), p) { c.fail("goto_parent", format!("from #{}", i)); } else if m.descendant_index() != p { c.fail("goto_parent.descendant_index", format!("from #{}: {} want {}", i, m.descendant_index(), p)); } } None => { if ok { c.fail("goto_parent", "from root returned true".into()); } } }
        let (next, prev) = match x.parent { Some(p) => { let s = &xt.nodes[p].children; let pos = s.iter().position(|&k| k == i).unwrap(); (s.get(pos + 1).copied(), if pos > 0 { Some(s[pos - 1]) } else { None }) } None => (None, None) };
        let mut m = cur.clone();
        let ok = m.goto_next_sibling();
        match next { Some(k) => { if !ok || !c.same(&m.node(), k) { c.fail("goto_next_sibling", format!("from #{}", i)); } else if m.descendant_index() != k { c.fail("goto_next_sibling.descendant_index", format!("from #{}: {} want {}", i, m.descendant_index(), k)); } } None => { if ok { c.fail("goto_next_sibling", format!("from last child #{} returned true", i)); } else if !c.same(&m.node(), i) { c.fail("goto_next_sibling", format!("failed move from #{} changed the position", i)); } } }
        let mut m = cur.clone();
        let ok = m.goto_previous_sibling();
        match prev {
            Some(k) => {
                if !ok || !c.same(&m.node(), k) { c.fail("goto_previous_sibling", format!("from #{} (child position {} of its parent): ok={} landed on {}@{}..{} want #{} {}", i, x.parent.map(|p| xt.nodes[p].children.iter().position(|&q| q == i).unwrap()).unwrap_or(0), ok, m.node().kind(), m.node().start_byte(), m.node().end_byte(), k, xt.brief(k))); }
                else {
                    if m.descendant_index() != k { c.fail("goto_previous_sibling.descendant_index", format!("from #{}: {} want {}", i, m.descendant_index(), k)); }
                    let f = m.field_id().map(|f| f.get()).unwrap_or(0);
                    if f != xt.nodes[k].field_id { c.fail("goto_previous_sibling.field", format!("from #{}: field {} want {}", i, f, xt.nodes[k].field_id)); }
                }
            }
            None => { if ok { c.fail("goto_previous_sibling", format!("from first child #{} returned true", i)); } else if !c.same(&m.node(), i) { c.fail("goto_previous_sibling", format!("failed move from #{} changed the position", i)); } }
        }
        // first child for byte / point
        let mut b = x.start.saturating_sub(1);
        while b <= x.end + 1 {
            let want = x.children.iter().position(|&k| xt.nodes[k].end > b);
            let mut m = cur.clone();
            let got = m.goto_first_child_for_byte(b);
            if got != want { c.fail("goto_first_child_for_byte", format!("from #{} byte {}: index {:?} want {:?}", i, b, got, want)); }
            else if let Some(w) = want { if !c.same(&m.node(), x.children[w]) { c.fail("goto_first_child_for_byte", format!("from #{} byte {}: wrong node", i, b)); } }
            else if !c.same(&m.node(), i) { c.fail("goto_first_child_for_byte", format!("failed move from #{} changed the position", i)); }
            if b <= lt_len(lt) {
                let p = lt.point(b);
                let wantp = x.children.iter().position(|&k| xt.nodes[k].ep > p);
                let mut m = cur.clone();
                let got = m.goto_first_child_for_point(p);
                if got != wantp { c.fail("goto_first_child_for_point", format!("from #{} point {:?}: index {:?} want {:?}", i, p, got, wantp)); }
                else if let Some(w) = wantp { if !c.same(&m.node(), x.children[w]) { c.fail("goto_first_child_for_point", format!("from #{} point {:?}: wrong node", i, p)); } }
            }
            b += step;
        }
        // goto_descendant from this position to every index (quadratic; bounded by `step` on big trees)
        let jstep = if total <= 64 { 1 } else { (total / 64).max(2) };
        let mut j = 0;
        while j < total {
            let mut m = cur.clone();
            m.goto_descendant(j);
            if !c.same(&m.node(), j) || m.descendant_index() != j || m.depth() != xt.nodes[j].depth {
                c.fail("goto_descendant", format!("from #{} to {}: at {}@{}..{} index {} depth {}", i, j, m.node().kind(), m.node().start_byte(), m.node().end_byte(), m.descendant_index(), m.depth()));
            }
            j += jstep;
        }
        // cursor rooted at this node: its walk must reproduce the sub-tree; moves out of the root must fail
        if !x.children.is_empty() || i % 7 == 0 {
            let sub = XTree::build_from(n);
            let size = xt.subtree_size(i);
            if sub.nodes.len() != size { c.fail("inner-cursor-walk", format!("cursor rooted at #{} visits {} nodes, subtree has {}", i, sub.nodes.len(), size)); }
            else {
                for k in 0..size {
                    let a = &sub.nodes[k]; let b2 = &xt.nodes[i + k];
                    let field_ok = k == 0 || a.field_id == b2.field_id;
                    if a.id != b2.id || a.start != b2.start || a.end != b2.end || a.kind_id != b2.kind_id || a.depth + x.depth != b2.depth || !field_ok {
                        c.fail("inner-cursor-walk", format!("cursor rooted at #{}: node {} differs: {} vs {}", i, k, sub.brief(k), xt.brief(i + k)));
                        break;
                    }
                }
            }
            let mut r = n.walk();
            if r.goto_parent() { c.fail("inner-cursor-root", format!("cursor rooted at #{} could goto_parent", i)); }
            if r.goto_next_sibling() { c.fail("inner-cursor-root", format!("cursor rooted at #{} could goto_next_sibling", i)); }
            if r.goto_previous_sibling() { c.fail("inner-cursor-root", format!("cursor rooted at #{} could goto_previous_sibling", i)); }
            // reset / reset_to
            let mut r2 = tree.walk();
            r2.reset(n);
            if !c.same(&r2.node(), i) || r2.depth() != 0 { c.fail("cursor.reset", format!("reset to #{}", i)); }
            let mut r3 = tree.walk();
            r3.reset_to(&cur);
            if !c.same(&r3.node(), i) || r3.depth() != x.depth || r3.descendant_index() != i { c.fail("cursor.reset_to", format!("reset_to cursor at #{}", i)); }
        }
    }
}

fn lt_len(lt: &LineTable) -> usize { lt.offset(Point { row: lt.rows() - 1, column: 0 }).unwrap_or(0) + 1_000_000 }

fn wide_docs(name: &str) -> Vec<Vec<u8>> {
    let mut out = vec![];
    for n in [250usize, 251, 252, 253, 254, 255, 256, 257, 300] {
        match name {
            "stmts" => { out.push(format!("{{ a;{} b; }}", " #c\n".repeat(n)).into_bytes()); out.push(format!("f(a{}, b);", " /*c*/".repeat(n)).into_bytes()); }
            _ => {}
        }
    }
    match name {
        "stmts" => { out.push(b"let a =\n  1 +\n  2;\nif a {\n  b;\n}\n".to_vec()); }
        "indent" => { out.push(b"a:\n b:\n  c\n  d\n e\nf\n".to_vec()); }
        _ => {}
    }
    out
}

pub fn worker(ctx: &Ctx, res: &mut ShardResult) {
    let (k, full) = params(&ctx.tier);
    let mut idx = 0usize;
    // (plus `nestf`: fields on hidden rules that stay in the tree, with inner fields of their own)
    for z in crate::zoo::core_zoo().iter().chain(std::iter::once(&crate::zoo::nestf())) {
        let info = build_info(z);
        let mut parser = Parser::new();
        parser.set_language(&info.language).unwrap();
        let mut docs = crate::docs::docs(z, k);
        docs.extend(wide_docs(z.name));
        for d in docs.iter() {
            idx += 1;
            if !ctx.mine(idx) { continue; }
            crate::case!("{}", case_json(z.name, d, None));
            let tree = parser.parse(d, None).unwrap();
            run_one(&info, d, &tree, None, full, res);
            // trees after one edit + re-parse (a few edit positions per document: start, middle, end)
            if d.len() <= 40 && !d.is_empty() {
                for (pos, ins) in [(0usize, &b"a"[..]), (d.len() / 2, &b" "[..]), (d.len(), &b";"[..])] {
                    let e = text::Edit { start: pos, old_len: if pos < d.len() { 1 } else { 0 }, ins: ins.to_vec() };
                    crate::case!("{}", case_json(z.name, d, Some(&e)));
                    let (nt, ie) = text::apply(d, &e);
                    let mut old = tree.clone();
                    old.edit(&ie);
                    let t2 = parser.parse(&nt, Some(&old)).unwrap();
                    run_one(&info, &nt, &t2, Some((d, &e)), full, res);
                }
            }
            // trees parsed with included ranges: nodes with excluded gaps inside and between them
            if d.len() >= 3 && d.len() <= 24 {
                for rl in ranged_lists(d.len()) {
                    crate::case!("{}", ranged_case_json(z.name, d, &rl));
                    let rs: Vec<tree_sitter::Range> = rl.iter().map(|&(s, e)| crate::checks::c13::mk_range(d, s, e)).collect();
                    parser.set_included_ranges(&rs).unwrap();
                    let t3 = parser.parse(d, None).unwrap();
                    parser.set_included_ranges(&[]).unwrap();
                    res.transitions += 1;
                    res.states += 1;
                    res.count("trees_parsed_with_included_ranges", 1);
                    for (fp, msg) in check_tree(&info, d, &t3, full) { res.violation(&fp, format!("ranges {:?}: {}", rl, msg), ranged_case_json(z.name, d, &rl)); }
                }
            }
            if res.too_many() || ctx.out_of_time() { if ctx.out_of_time() { res.caps.push("wall-clock budget reached".into()); } return; }
        }
    }
}

/// a few range lists per document length: a hole in the middle, two holes, a late start, an early end
fn ranged_lists(n: usize) -> Vec<Vec<(usize, usize)>> {
    let (a, b, c) = (n / 3, n / 2, 2 * n / 3);
    let mut v = vec![vec![(0, b), (b + 1, n)], vec![(1, n)], vec![(0, n - 1)], vec![(0, a), (c, n)]];
    if n >= 6 { v.push(vec![(0, a), (a + 1, c), (c + 1, n)]); }
    v
}

fn ranged_case_json(lang: &str, doc: &[u8], rl: &[(usize, usize)]) -> Value { json!({"lang": lang, "doc": crate::util::bytes_json(doc), "edit": Value::Null, "ranges": rl}) }

fn run_one(info: &LangInfo, text: &[u8], tree: &Tree, origin: Option<(&[u8], &text::Edit)>, full: usize, res: &mut ShardResult) {
    res.transitions += 1;
    res.states += 1;
    let errs = check_tree(info, text, tree, full);
    let nn = tree.root_node().descendant_count();
    if nn > 3 { res.nontrivial += 1; }
    res.outcome(nn as u64);
    if res.samples.len() < 2 && nn > 5 { res.sample(json!({"lang": info.name, "doc": crate::util::bytes_json(text), "nodes": nn})); }
    for (fp, msg) in errs {
        let case = match origin { Some((d, e)) => case_json(&info.name, d, Some(e)), None => case_json(&info.name, text, None) };
        res.violation(&fp, msg, case);
    }
}

pub fn replay(case: &Value) -> Vec<String> {
    let case = if case.get("kind").and_then(|k| k.as_str()) == Some("crash") { &case["case"] } else { case };
    let name = case["lang"].as_str().unwrap_or("");
    let Some(z) = crate::zoo::by_name(name) else { return vec![format!("unknown language {}", name)] };
    let info = build_info(&z);
    let mut text = crate::util::bytes_from_json(&case["doc"]);
    let mut parser = Parser::new();
    parser.set_language(&info.language).unwrap();
    if let Some(a) = case["ranges"].as_array() {
        let rl: Vec<(usize, usize)> = a.iter().map(|r| (r[0].as_u64().unwrap() as usize, r[1].as_u64().unwrap() as usize)).collect();
        let rs: Vec<tree_sitter::Range> = rl.iter().map(|&(s, e)| crate::checks::c13::mk_range(&text, s, e)).collect();
        parser.set_included_ranges(&rs).unwrap();
    }
    let mut tree = parser.parse(&text, None).unwrap();
    if !case["edit"].is_null() {
        let e = text::Edit::from_json(&case["edit"]);
        let (nt, ie) = text::apply(&text, &e);
        let mut old = tree.clone();
        old.edit(&ie);
        tree = parser.parse(&nt, Some(&old)).unwrap();
        text = nt;
    }
    if text.len() < 200 { println!("tree: {}", tree.root_node().to_sexp()); }
    check_tree(&info, &text, &tree, 24).into_iter().map(|(f, m)| format!("{}: {}", f, m)).collect()
}
