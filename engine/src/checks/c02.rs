//! C02: every parse terminates with a well-formed tree that tiles the text.
use crate::checks::c_hist::{build_info, insert_atoms};
use crate::hist::{self, HistCfg, Oracle, ScratchCache};
use crate::run::{CheckMeta, Ctx, ShardResult};
use crate::wf::{self, LangInfo};
use crate::xtree::{self, XTree};
use serde_json::{json, Value};
use std::ops::ControlFlow;
use tree_sitter::{ParseOptions, Parser, Tree};

pub fn params(tier: &str) -> (usize, usize, usize) {
    // (atoms per string n, hist start-doc k, hist depth)
    if tier == "mini" { (2, 0, 1) } else if tier == "quick" { (4, 1, 1) } else { (5, 2, 2) }
}

pub fn meta(tier: &str) -> CheckMeta {
    let (n, k, d) = params(tier);
    CheckMeta {
        id: "C02", level: "model_checking",
        rule: "E-box: every string of <=n atoms over (lexemes + adversarial atoms NUL,BOM,CR,0xFF,0xC3,e-acute,emoji,LF) for every zoo language, plus seeds, plus the long-repeat / deep-nesting / 254-257-byte token families; E-hist: every tree reached by the edit-history BFS (start docs <=k lexemes, depth d). Oracle derived from the bytes only (containment, order, points, tiling, literal tokens, MISSING empty, has_error, advertised counts) + hook H2 summary re-derivation. Termination: progress-callback budget and wall-clock watchdog. Non-trivial = tree containing ERROR or MISSING.",
        assumptions: vec!["tiling is asserted for zoo grammars, which have no hidden non-empty terminals".into()],
        exhaustive: true,
        bounds: json!({"atoms_per_string": n, "hist_start_doc_lexemes": k, "hist_depth": d, "family_sizes": [10, 100, 1000, 10000, 100000]}),
    }
}

pub fn case_json(lang: &str, text: &[u8]) -> Value { json!({"lang": lang, "doc": crate::util::bytes_json(text), "edits": [], "chunk": 0}) }

/// Parse with an operation budget enforced through the progress callback. None = budget exceeded (non-termination suspect).
pub fn parse_budgeted(parser: &mut Parser, text: &[u8], budget: u64) -> Option<Tree> {
    let mut calls = 0u64;
    let mut cb = |_: &tree_sitter::ParseState| { calls += 1; if calls > budget { ControlFlow::Break(()) } else { ControlFlow::Continue(()) } };
    let opts = ParseOptions::new().progress_callback(&mut cb);
    let len = text.len();
    let t = parser.parse_with_options(&mut |i, _| if i < len { &text[i..] } else { &text[len..] }, None, Some(opts));
    if t.is_none() { parser.reset(); }
    t
}

pub fn check_one(info: &LangInfo, parser: &mut Parser, text: &[u8], res: &mut ShardResult) {
    crate::case!("{}", case_json(&info.name, text));
    res.transitions += 1;
    let budget = 10_000 * (text.len() as u64 + 1) / 100 + 10_000; // callbacks fire once per 100 operations
    let Some(tree) = parse_budgeted(parser, text, budget) else {
        res.violation("no-termination-within-budget", format!("parse exceeded {} progress callbacks", budget), case_json(&info.name, text));
        return;
    };
    let xt = XTree::build(&tree);
    crate::run::oracle_phase(true);
    for f in wf::check(info, text, &xt, None) { res.violation(&f.fingerprint, f.msg, case_json(&info.name, text)); }
    if let Err(m) = xtree::check_summaries(&tree) { res.violation("stale-summary", m, case_json(&info.name, text)); }
    crate::run::oracle_phase(false);
    if xt.has_error_or_missing() { res.nontrivial += 1; }
    res.outcome(crate::util::fnv_mix(crate::util::fnv_mix(xt.nodes.len() as u64, xt.root_has_error() as u64), xt.nodes.iter().filter(|n| n.missing).count() as u64));
}

fn families(z: &crate::zoo::ZooLang, sizes: &[usize]) -> Vec<Vec<u8>> {
    let mut out = vec![];
    let rep = |unit: &str, n: usize| unit.repeat(n).into_bytes();
    for &n in sizes {
        match z.name {
            "arith" => {
                out.push(format!("{}1{}", "(".repeat(n), ")".repeat(n)).into_bytes());
                out.push(format!("1{}", "+1".repeat(n)).into_bytes());
                out.push(format!("1{}", "^1".repeat(n)).into_bytes());
                out.push(rep("(", n));
            }
            "stmts" => {
                out.push(rep("a;", n));
                out.push(format!("{}{}", "{".repeat(n), "}".repeat(n)).into_bytes());
                out.push(format!("{{ a;{} b; }}", " #c\n".repeat(n)).into_bytes());
                out.push(rep("let ", n));
            }
            "jsonish" => {
                out.push(format!("{}{}", "[".repeat(n), "]".repeat(n)).into_bytes());
                out.push(format!("[1{}]", ",1".repeat(n)).into_bytes());
                out.push(format!("\"{}\"", "a".repeat(n)).into_bytes());
                out.push(rep("[", n));
            }
            "glr" => { out.push(rep("a * b;", n)); out.push(format!("a{};", " * b".repeat(n)).into_bytes()); }
            "lexla" => { out.push(rep("ab ", n)); out.push(rep(".", n)); out.push(rep("a", n)); }
            "indent" => {
                let mut s = String::new();
                for i in 0..n.min(30) { s.push_str(&" ".repeat(i)); s.push_str("a:\n"); }
                s.push_str(&" ".repeat(n.min(30))); s.push_str("b\n");
                out.push(s.into_bytes());
                out.push(rep("a\n", n));
            }
            "pstring" => {
                out.push(format!("%({}{})", "(".repeat(n.min(200)), ")".repeat(n.min(200))).into_bytes());
                out.push(rep("%(a) ", n));
                out.push(format!("%({})", "a".repeat(n)).into_bytes());
            }
            _ => {}
        }
    }
    // inline-leaf limits of the row and look-ahead fields (4 bits each): paddings of 14..18 rows, look-aheads of 14..18 bytes
    for n in 14..=18usize {
        match z.name {
            "stmts" => { out.push(format!("a;{}b;", "\n".repeat(n)).into_bytes()); out.push(format!("{}a;", "\n".repeat(n)).into_bytes()); out.push(format!("{{ a;{} b; }}", "\n".repeat(n)).into_bytes()); }
            "arith" => { out.push(format!("1{}+{}2", "\n".repeat(n), "\n".repeat(n)).into_bytes()); }
            "jsonish" => { out.push(format!("[1,{}2]", "\n".repeat(n)).into_bytes()); }
            "lookfar" => { out.push(format!("a-{}", "b".repeat(n)).into_bytes()); out.push(format!("a-{} c", "b".repeat(n)).into_bytes()); out.push(format!("a{}bc", "\n".repeat(n)).into_bytes()); }
            "pstring" => { out.push(format!("a{}%(b)", "\n".repeat(n)).into_bytes()); }
            _ => {}
        }
    }
    // inline-leaf limits: tokens and paddings of 253..258 bytes
    for n in 253..=258usize {
        match z.name {
            "stmts" => { out.push(format!("{};", "a".repeat(n)).into_bytes()); out.push(format!("a{};", " ".repeat(n)).into_bytes()); out.push(format!("a;{}b;", "\n".repeat(n)).into_bytes()); }
            "arith" => { out.push(format!("{}", "1".repeat(n)).into_bytes()); out.push(format!("1{}+1", " ".repeat(n)).into_bytes()); }
            "lexla" => { out.push(format!("{} ab", "a".repeat(n)).into_bytes()); }
            _ => {}
        }
    }
    out
}

pub fn worker(ctx: &Ctx, res: &mut ShardResult) {
    let (n, k, depth) = params(&ctx.tier);
    // (plus `innersp`: a token with the extras character inside it)
    let mut zoo = crate::zoo::core_zoo();
    zoo.push(crate::zoo::innersp());
    let mut idx = 0usize;
    let sizes: Vec<usize> = if ctx.mini() { vec![10, 1000] } else if ctx.quick() { vec![10, 100, 1000, 10000] } else { vec![10, 100, 1000, 10000, 100000] };
    for z in zoo.iter() {
        let info = build_info(z);
        let mut parser = Parser::new();
        parser.set_language(&info.language).unwrap();
        // (a) seeds and the complete atom box
        let mut atoms: Vec<Vec<u8>> = z.lexemes.iter().map(|s| s.as_bytes().to_vec()).collect();
        for a in crate::zoo::ADVERSARIAL_ATOMS { if !atoms.iter().any(|x| x == a) { atoms.push(a.to_vec()); } }
        for s in z.seeds.iter() {
            idx += 1;
            if ctx.mine(idx) { check_one(&info, &mut parser, s.as_bytes(), res); res.sample(case_json(z.name, s.as_bytes())); }
        }
        for len in 0..=n {
            if len == 0 { idx += 1; if ctx.mine(idx) { check_one(&info, &mut parser, b"", res); } continue; }
            let mut buf: Vec<u8> = Vec::new();
            let mut stop = false;
            crate::util::for_each_seq(atoms.len(), len, |ix| {
                idx += 1;
                if stop || !ctx.mine(idx) { return; }
                buf.clear();
                for &i in ix { buf.extend_from_slice(&atoms[i]); }
                check_one(&info, &mut parser, &buf, res);
                res.states += 1;
                if res.too_many() { stop = true; }
            });
            if stop { return; }
        }
        // (b) deterministic big families
        for d in families(z, &sizes) {
            idx += 1;
            if ctx.mine(idx) {
                crate::run::pause_watchdog(false);
                check_one(&info, &mut parser, &d, res);
                res.states += 1;
                res.count("family_docs", 1);
            }
        }
        // (b') the same well-formedness oracle on trees parsed WITH included ranges: every list of <= 2 ranges over all byte
        // positions (and one past the end / u32::MAX) for short documents; bytes in excluded text need not lie in a leaf
        {
            let maxlen = if ctx.mini() { 4 } else if ctx.quick() { 7 } else { 10 };
            for d in crate::docs::docs(z, 2).iter().filter(|d| !d.is_empty() && d.len() <= maxlen) {
                idx += 1;
                if !ctx.mine(idx) { continue; }
                let char_ok = |b: usize| match std::str::from_utf8(d) { Ok(st) => b >= d.len() || st.is_char_boundary(b), Err(_) => true };
                for rl in hist::range_lists_for(d.len(), 2) {
                    // (a boundary inside a multi-byte character: recorded C13 finding, not repeated here)
                    if rl.is_empty() || rl.iter().any(|&(s, e)| !char_ok(s) || !char_ok(e)) { continue; }
                    crate::case!("{}", json!({"lang": z.name, "doc": crate::util::bytes_json(d), "ranges": rl}));
                    let rs: Vec<tree_sitter::Range> = rl.iter().map(|&(s, e)| crate::checks::c13::mk_range(d, s, e)).collect();
                    parser.set_included_ranges(&rs).unwrap();
                    let tree = parser.parse(d, None).unwrap();
                    parser.set_included_ranges(&[]).unwrap();
                    res.transitions += 1;
                    res.count("parses_with_included_ranges", 1);
                    let xt = XTree::build(&tree);
                    let clipped: Vec<tree_sitter::Range> = rs.iter().map(|r| { let mut r = *r; r.end_byte = r.end_byte.min(d.len()); r.start_byte = r.start_byte.min(d.len()); r }).collect();
                    // Known finding: when no included range begins inside the text (all of them start at or after its end) the
                    // zero-width root is placed at the first range's start, i.e. outside the text.
                    let none_inside = rl.iter().all(|&(s, _)| s >= d.len());
                    for mut f in wf::check(&info, d, &xt, Some(&clipped)) {
                        if none_inside && (f.fingerprint == "root-outside-text" || f.fingerprint == "node-outside-text") { f.fingerprint = "no-range-inside-text".into(); }
                        // the extent of an ERROR leaf ignores the range seam: recorded C13 finding
                        if f.fingerprint == "byte-not-in-leaf" || xt.nodes.iter().any(|n| n.is_error) && (f.fingerprint == "children-overlap" ) { continue; }
                        res.violation(&format!("ranges:{}", f.fingerprint), format!("ranges {:?}: {}", rl, f.msg), json!({"lang": z.name, "doc": crate::util::bytes_json(d), "ranges": rl}));
                    }
                    if let Err(m) = xtree::check_summaries(&tree) { res.violation("ranges:stale-summary", format!("ranges {:?}: {}", rl, m), json!({"lang": z.name, "doc": crate::util::bytes_json(d), "ranges": rl})); }
                    if res.too_many() { return; }
                }
                res.states += 1;
            }
        }
        // (c) every tree reached by the edit-history search
        let atoms2 = insert_atoms(z);
        let mut scratch = ScratchCache::new();
        for d in crate::docs::docs(z, k) {
            idx += 1;
            if !ctx.mine(idx) { continue; }
            let cfg = HistCfg { oracle: Oracle::C02, depth, chunks: vec![0], insert_atoms: atoms2.clone(), max_states_per_doc: 100_000 };
            hist::explore_doc(ctx, &info, &d, &cfg, res, &mut scratch);
            if ctx.out_of_time() || res.too_many() { return; }
        }
    }
}

pub fn replay(case: &Value) -> Vec<String> {
    let case = if case.get("kind").and_then(|k| k.as_str()) == Some("crash") { &case["case"] } else { case };
    let name = case["lang"].as_str().unwrap_or("");
    let Some(z) = crate::zoo::by_name(name) else { return vec![format!("unknown language {}", name)] };
    let info = build_info(&z);
    if case["edits"].as_array().map(|a| a.is_empty()).unwrap_or(true) {
        let text = crate::util::bytes_from_json(&case["doc"]);
        let mut parser = Parser::new();
        parser.set_language(&info.language).unwrap();
        let mut clipped: Option<Vec<tree_sitter::Range>> = None;
        if let Some(a) = case["ranges"].as_array() {
            let rs: Vec<tree_sitter::Range> = a.iter().map(|r| crate::checks::c13::mk_range(&text, r[0].as_u64().unwrap() as usize, r[1].as_u64().unwrap() as usize)).collect();
            parser.set_included_ranges(&rs).unwrap();
            clipped = Some(rs.iter().map(|r| { let mut r = *r; r.end_byte = r.end_byte.min(text.len()); r.start_byte = r.start_byte.min(text.len()); r }).collect());
        }
        let tree = parser.parse(&text, None).unwrap();
        println!("tree: {}", XTree::build(&tree).sexp_pos(&info.language));
        let xt = XTree::build(&tree);
        let mut msgs: Vec<String> = wf::check(&info, &text, &xt, clipped.as_deref()).into_iter().filter(|f| clipped.is_none() || f.fingerprint != "byte-not-in-leaf").map(|f| format!("{}: {}", f.fingerprint, f.msg)).collect();
        if let Err(m) = xtree::check_summaries(&tree) { msgs.push(m); }
        msgs
    } else {
        hist::replay(&info, case, Oracle::C02)
    }
}
