//! C01 (incremental == scratch) and C04 (changed ranges) over the shared edit-history explorer.
use crate::hist::{self, HistCfg, Oracle, ScratchCache};
use crate::run::{CheckMeta, Ctx, ShardResult};
use crate::wf::LangInfo;
use crate::zoo::ZooLang;
use serde_json::json;
use tree_sitter_generate::OptLevel;

fn oracle_of(id: &str) -> Oracle { match id { "C01" => Oracle::C01, "C04" => Oracle::C04, _ => Oracle::C02 } }

pub fn params(tier: &str) -> (usize, usize) {
    // (lexeme-string length k for start documents, history depth)
    if tier == "mini" { (0, 1) } else if tier == "quick" { (2, 1) } else { (3, 2) }
}

pub fn meta(id: &str, tier: &str) -> CheckMeta {
    let (k, depth) = params(tier);
    let (idc, rule): (&'static str, &'static str) = match id {
        "C01" => ("C01", "Batched edits first: every ordered pair (thorough: triples on short documents) of edits applied with Tree::edit before ONE re-parse. Seeds also get every insertion of two lexemes at once. The range-transition box runs for the language seam (a scanner that queries range boundaries) without edits as well. E-hist: BFS over edit histories from every start document (seeds + all strings of <=k lexemes, valid and erroneous) of every zoo language; edit alphabet = every byte offset x {delete 1, delete 2, insert each atom, replace 1 byte}; each transition = Tree::edit + re-parse on the real runtime, compared with a from-scratch parse; state key = (text, internal tree hash via hook H2). Non-trivial = transition on which the new tree shares at least one node identity with the edited old tree (real reuse happened). Plus the included-range box: for every document of <= L bytes, EVERY pair of range lists (R1, R2) over all byte positions and u32::MAX (the empty list = whole document), optionally crossed with every edit: parse(d,R1), edit, parse(d',R2,old) compared with parse(d',R2) from scratch."),
        _ => ("C04", "same E-hist exploration as C01, batched-edit box and two-lexeme insertions included (including the included-range box: every pair of range lists R1 -> R2 between consecutive parses); oracle = changed_ranges(old_edited,new) sorted/disjoint/in-document/points consistent and every non-newline byte whose ancestor-kind stack differs is covered. Non-trivial = transition with at least one changed range."),
    };
    CheckMeta {
        id: idc, level: "model_checking", rule,
        assumptions: vec![
            "zoo grammars and their lexeme alphabets define the document space; documents beyond the stated bounds are not covered".into(),
            "zoo external scanners serialise all their state (a precondition of the property)".into(),
        ],
        exhaustive: true,
        bounds: json!({"start_doc_lexemes_k": k, "history_depth": depth, "chunk_sizes": [0,1,2,3,7], "seed_sub_box": "depth+1 on language #(seed mod N), seeds only",
            "included_range_box_(max_doc_bytes,max_ranges_R1,max_ranges_R2,crossed_with_every_edit)": range_passes(tier),
            "batched_edits_(pairs_on_docs_up_to_bytes,pairs_on_seeds_up_to_bytes,triples_on_docs_up_to_bytes)": [batch_bounds(tier).0, batch_bounds(tier).1, batch_bounds(tier).2]}),
    }
}

/// (every ordered PAIR of edits before one re-parse on all documents up to .0 bytes and on seeds up to .1 bytes, every TRIPLE up to .2 bytes)
pub fn batch_bounds(tier: &str) -> (usize, usize, usize) {
    // (VF_BATCH=a,b,c overrides the bounds: for experiments only, never set by the registered commands)
    if let Ok(v) = std::env::var("VF_BATCH") { let p: Vec<usize> = v.split(',').filter_map(|x| x.parse().ok()).collect(); if p.len() == 3 { return (p[0], p[1], p[2]); } }
    if tier == "mini" { (2, 6, 0) } else if tier == "quick" { (3, 14, 0) } else { (7, 24, 4) } }

pub fn build_info(z: &ZooLang) -> LangInfo {
    let l = crate::lang::build(&z.spec, OptLevel::default()).expect("zoo language builds");
    LangInfo::new(z.name, &l.language, &l.grammar, z.skippable, true)
}

pub fn insert_atoms(z: &ZooLang) -> Vec<Vec<u8>> {
    let mut atoms: Vec<Vec<u8>> = z.lexemes.iter().map(|s| s.as_bytes().to_vec()).collect();
    // (16 line breaks: the row field of an inline leaf's padding is 4 bits wide)
    for extra in ["\n".as_bytes(), "é".as_bytes(), b"\xff", b"\n\n\n\n\n\n\n\n\n\n\n\n\n\n\n\n"] { if !atoms.iter().any(|a| a == extra) { atoms.push(extra.to_vec()); } }
    // byte-wise typing of a THREE-byte character (the first two bytes of U+2603, then its last byte: that second insertion
    // is two bytes away from the token in front, i.e. behind a one-byte look-ahead but inside the real one):
    // the intermediate text is invalid UTF-8, and the token before it has looked at the whole truncated sequence
    if z.lexemes.iter().any(|l| !l.is_ascii()) { for extra in [&b"\xe2\x98"[..], &b"\x83"[..]] { atoms.push(extra.to_vec()); } }
    atoms
}

pub fn worker(ctx: &Ctx, res: &mut ShardResult) {
    let (k, depth) = params(&ctx.tier);
    let zoo = crate::zoo::core_zoo();
    let nlang = zoo.len();
    let mut idx = 0usize;
    // batched edits first (a bounded box, so that the open-ended history search below cannot starve it): several edits on
    // the old tree before ONE re-parse. Every ordered pair on all documents up to `pair_len` bytes and on the seeds up to
    // `seed_len` bytes, every ordered triple on documents up to `triple_len` bytes.
    if ctx.id != "C02" {
        let (pair_len, seed_len, triple_len) = batch_bounds(&ctx.tier);
        for z in zoo.iter() {
            let info = build_info(z);
            let mut scratch = ScratchCache::new();
            let small_atoms: Vec<Vec<u8>> = { let mut a: Vec<Vec<u8>> = z.lexemes.iter().take(3).map(|s| s.as_bytes().to_vec()).collect(); for x in ["\n".as_bytes(), b" "] { if !a.iter().any(|y| y == x) { a.push(x.to_vec()); } } a };
            let docs = crate::docs::docs(z, 2);
            for (di, d) in docs.iter().enumerate() {
                if d.is_empty() || !(d.len() <= pair_len || (di < z.seeds.len() && d.len() <= seed_len)) { continue; }
                idx += 1;
                if !ctx.mine(idx) { continue; }
                hist::explore_batched(ctx, &info, d, &small_atoms, 2, oracle_of(&ctx.id), res, &mut scratch);
                if d.len() <= triple_len { hist::explore_batched(ctx, &info, d, &small_atoms, 3, oracle_of(&ctx.id), res, &mut scratch); }
                res.count(&format!("batched_docs_{}", z.name), 1);
                if res.too_many() { return; }
                if ctx.out_of_time() { res.caps.push("wall-clock budget reached (batched edits)".into()); return; }
            }
        }
    }
    for (li, z) in zoo.iter().enumerate() {
        let info = build_info(z);
        let atoms = insert_atoms(z);
        let pair_atoms: Vec<Vec<u8>> = { let mut v = vec![]; for a in z.lexemes.iter() { for b in z.lexemes.iter() { let mut x = a.as_bytes().to_vec(); x.extend_from_slice(b.as_bytes()); v.push(x); } } v.sort(); v.dedup(); v };
        let mut scratch = ScratchCache::new();
        let mut docs = crate::docs::docs(z, k);
        // start documents with a TRUNCATED three-byte character (its last byte missing): the token in front has looked at the whole
        // invalid sequence, and the one-step edit that completes the character is not adjacent to that token
        let trunc: Vec<Vec<u8>> = { let mut v: Vec<Vec<u8>> = vec![]; for d in docs.iter().filter(|d| d.len() <= 14) { for i in 0..d.len() { if d[i] & 0xf0 == 0xe0 && i + 2 < d.len() { let mut t = d.clone(); t.remove(i + 2); if !v.contains(&t) { v.push(t); } } } } v };
        docs.extend(trunc);
        let nseeds = z.seeds.len();
        for (di, d) in docs.iter().enumerate() {
            idx += 1;
            if !ctx.mine(idx) { continue; }
            // seed-selected sub-box: one more level of depth on the seeds of one language
            let extra = if !ctx.mini() && (ctx.seed as usize) % nlang == li && di < nseeds && d.len() <= 14 { 1 } else { 0 };
            let cfg = HistCfg { oracle: oracle_of(&ctx.id), depth: depth + extra, chunks: vec![0, 1, 2, 3, 7], insert_atoms: atoms.clone(), max_states_per_doc: 200_000 };
            hist::explore_doc(ctx, &info, d, &cfg, res, &mut scratch);
            res.count(&format!("docs_{}", z.name), 1);
            // seeds also get every insertion of TWO lexemes at once (one level deep, whole-buffer reads): an operator with
            // its operand, an opening with its closing token, ... - edits that turn one valid document into another
            if di < nseeds && !ctx.mini() && d.len() <= 40 {
                let cfg2 = HistCfg { oracle: oracle_of(&ctx.id), depth: 1, chunks: vec![0], insert_atoms: pair_atoms.clone(), max_states_per_doc: 200_000 };
                hist::explore_doc(ctx, &info, d, &cfg2, res, &mut scratch);
            }
            if ctx.out_of_time() || res.too_many() { return; }
        }
        // included-range transitions: parse(d, R1) -> [edit] -> parse(d', R2, old tree)
        let rp = range_passes(&ctx.tier);
        let maxlen = rp.iter().map(|p| p.0).max().unwrap_or(0);
        for d in crate::docs::docs(z, 2).iter().filter(|d| !d.is_empty() && d.len() <= maxlen) {
            idx += 1;
            if !ctx.mine(idx) { continue; }
            hist::explore_ranges(ctx, &info, d, &rp, &atoms, oracle_of(&ctx.id), res);
            res.count(&format!("range_docs_{}", z.name), 1);
            if ctx.out_of_time() || res.too_many() { return; }
        }
    }
    // the same box (without edits) for `seam`, whose scanner asks whether it stands at the first byte of an included range
    if ctx.id != "C02" {
        let z = crate::zoo::seam();
        let info = build_info(&z);
        let rp: Vec<(usize, usize, usize, bool)> = range_passes(&ctx.tier).into_iter().filter(|p| !p.3).collect();
        let maxlen = rp.iter().map(|p| p.0).max().unwrap_or(0);
        for d in crate::docs::docs(&z, 2).iter().filter(|d| !d.is_empty() && d.len() <= maxlen) {
            idx += 1;
            if !ctx.mine(idx) { continue; }
            hist::explore_ranges(ctx, &info, d, &rp, &[], oracle_of(&ctx.id), res);
            res.count("range_docs_seam", 1);
            if ctx.out_of_time() || res.too_many() { return; }
        }
    }
}

/// passes of the included-range box: (max document bytes, max ranges in R1, max ranges in R2, crossed with every edit)
pub fn range_passes(tier: &str) -> Vec<(usize, usize, usize, bool)> {
    if tier == "mini" { vec![(3, 1, 1, false)] }
    else if tier == "quick" { vec![(3, 2, 2, false), (4, 1, 1, false), (1, 1, 1, true)] }
    else { vec![(4, 2, 2, false), (7, 1, 2, false), (7, 2, 1, false), (9, 1, 1, false), (3, 1, 2, true), (5, 1, 1, true)] }
}

pub fn replay(id: &str, case: &serde_json::Value) -> Vec<String> {
    let case = if case.get("kind").and_then(|k| k.as_str()) == Some("crash") { &case["case"] } else { case };
    let name = case["lang"].as_str().unwrap_or("");
    let Some(z) = crate::zoo::by_name(name) else { return vec![format!("unknown language {}", name)] };
    let info = build_info(&z);
    if case.get("part").and_then(|p| p.as_str()) == Some("ranges") { return hist::replay_ranges(&info, case, oracle_of(id)); }
    hist::replay(&info, case, oracle_of(id))
}
