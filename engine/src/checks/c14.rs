//! C14: the generated lexer implements the documented token disambiguation rules.
use crate::gram::*;
use crate::lang::{self, LangSpec};
use crate::run::{CheckMeta, Ctx, ShardResult};
use crate::xtree::XTree;
use regex::Regex;
use serde_json::{json, Value};
use tree_sitter::Parser;
use tree_sitter_generate::OptLevel;

pub fn meta(tier: &str) -> CheckMeta {
    let (n, cap) = params(tier);
    CheckMeta {
        id: "C14", level: "model_checking",
        rule: "E-box over token sets x strings. Token menu over {a,b,c}: literals a ab abc b bc; patterns a+ ab* [ab]+ a|bc a?b a{2,3} [^a\\s]+ \\p{L}+ and ab with the flag i; each plain or wrapped in token(prec(p,.)) with p in {-1,1}. Families: (i) token soup repeat(choice(t..)) for every ordered pair of menu variants (39x39) and every ordered triple of distinct plain items; (ii) two-context grammars choice(seq('x',A,B), seq('y',C)) for every ordered triple of distinct plain items (validity depends on the parse state); (iii) keyword grammars (word token [a-c]+ with keywords ab, abc, optional third keyword); each with extras in {none, space}; (iv) regex structure: every regular expression of nesting depth <= 2 over the atoms a, b, [ab] with postfix ? * + {0,1} {0,2} {1,2} {2} {2,}, concatenation and alternation, plus the depth-3 shapes (atom next to a quantified atom) combined with every small expression (quick) or every expression of depth <= 1 (thorough); those matching the empty string are removed, sixteen per grammar behind distinct prefix characters, against every string over {a,b}: accepted exactly when the `regex` crate matches the whole string. Inputs: every string over {a,b,c,space} (plus e-acute where a Unicode class is present) up to the length bound. Oracle: a reference tokenizer built on the `regex` crate (independent of the generator's NFA), applying the documented order among the tokens valid at the position: lexical precedence, longest match, string over pattern, earlier definition; keyword only if the whole word equals it. If the reference tokenization exists, the parse must be error-free with exactly that leaf sequence (kinds and byte ranges); otherwise the parse must report an error. (v) ordered pairs (thorough: triples) of seven tokens over large Unicode classes (L, Lu, Ll, N, a negated class), strings of <=4 over {a A e-acute E-acute 1 ! ? space}. Non-trivial = (grammar, input) pairs where at least two tokens match at some position.",
        assumptions: vec!["the documented five-rule order (docs/src/creating-parsers/3-writing-the-grammar.md, 'Conflicting tokens') is the specification".into()],
        exhaustive: true,
        bounds: json!({"max_input_chars": n, "grammars_cap_per_family": cap}),
    }
}

pub fn params(tier: &str) -> (usize, usize) { if tier == "mini" { (3, 20) } else if tier == "quick" { (5, 220) } else { (6, 0) } }

#[derive(Clone, Debug)]
pub struct TokDef { pub name: String, pub expr: Value, pub is_string: bool, pub re: String, pub prec: i32, pub src: String }

pub fn menu() -> Vec<(&'static str, bool)> {
    vec![("a", true), ("ab", true), ("abc", true), ("b", true), ("bc", true),
         ("a+", false), ("ab*", false), ("[ab]+", false), ("a|bc", false), ("a?b", false), ("a{2,3}", false), ("[^a\\s]+", false), ("\\p{L}+", false), ("(?i)ab", false)]
}

fn mk_tok(idx: usize, item: (&str, bool), p: Option<i32>) -> TokDef {
    // "(?i)x" in the menu stands for the pattern x with the grammar-level flag "i" (the reference regex keeps the inline flag)
    let base = if item.1 { s(item.0) } else if let Some(rest) = item.0.strip_prefix("(?i)") { pat_flags(rest, "i") } else { pat(item.0) };
    let expr = match p { Some(p) => token(prec(p, base)), None => base };
    let re = if item.1 { regex::escape(item.0) } else { item.0.to_string() };
    TokDef { name: format!("t{}", idx), expr, is_string: item.1, re, prec: p.unwrap_or(0), src: format!("{}{}", item.0, p.map(|p| format!("@prec{}", p)).unwrap_or_default()) }
}

pub struct LexGrammar { pub id: String, pub g: G, pub toks: Vec<TokDef>, pub kind: &'static str, pub space_extra: bool, pub alphabet: Vec<&'static str> }

fn alphabet_for(toks: &[TokDef], space: bool) -> Vec<&'static str> {
    let mut a = vec!["a", "b", "c"];
    if toks.iter().any(|t| t.src.starts_with("(?i)")) { a.push("A"); a.push("B"); }
    if space { a.push(" "); }
    if toks.iter().any(|t| t.src.contains("\\p{L}") || t.src.contains("[^a")) { a.push("é"); }
    a
}

pub fn grammars(tier: &str) -> Vec<LexGrammar> {
    let (_, cap) = params(tier);
    let m = menu();
    let variants: Vec<(usize, Option<i32>)> = (0..m.len()).flat_map(|i| [None, Some(-1), Some(1)].into_iter().map(move |p| (i, p))).collect();
    let mut soups: Vec<LexGrammar> = vec![];
    // (i) soup, ordered pairs of variants
    for (ai, a) in variants.iter().enumerate() { for (bi, b) in variants.iter().enumerate() {
        if a.0 == b.0 { continue; }
        for space in [false, true] {
            let toks = vec![mk_tok(0, m[a.0], a.1), mk_tok(1, m[b.0], b.1)];
            let mut g = G::new(&format!("lx2_{}_{}_{}", ai, bi, space as u8)).rule("source", rep(choice(toks.iter().map(|t| sym(&t.name)).collect())));
            for t in &toks { g = g.rule(&t.name, t.expr.clone()); }
            g = g.extras(if space { vec![pat(" ")] } else { vec![] });
            let alphabet = alphabet_for(&toks, space);
            soups.push(LexGrammar { id: g.name.clone(), g, toks, kind: "soup", space_extra: space, alphabet });
        }
    } }
    // (i) soup, ordered triples of distinct plain items
    let mut triples: Vec<LexGrammar> = vec![];
    let mut ctx2: Vec<LexGrammar> = vec![];
    for a in 0..m.len() { for b in 0..m.len() { for c in 0..m.len() {
        if a == b || b == c || a == c { continue; }
        let toks = vec![mk_tok(0, m[a], None), mk_tok(1, m[b], None), mk_tok(2, m[c], None)];
        let mut g = G::new(&format!("lx3_{}_{}_{}", a, b, c)).rule("source", rep(choice(toks.iter().map(|t| sym(&t.name)).collect())));
        for t in &toks { g = g.rule(&t.name, t.expr.clone()); }
        g = g.extras(vec![pat(" ")]);
        let alphabet = alphabet_for(&toks, true);
        triples.push(LexGrammar { id: g.name.clone(), g, toks: toks.clone(), kind: "soup", space_extra: true, alphabet });
        // (ii) two contexts: x A B | y C
        let mut g = G::new(&format!("lxc_{}_{}_{}", a, b, c)).rule("source", choice(vec![seq(vec![s("x"), sym("t0"), sym("t1")]), seq(vec![s("y"), sym("t2")])]));
        for t in &toks { g = g.rule(&t.name, t.expr.clone()); }
        g = g.extras(vec![pat(" ")]);
        let alphabet = alphabet_for(&toks, true);
        ctx2.push(LexGrammar { id: g.name.clone(), g, toks, kind: "context", space_extra: true, alphabet });
    } } }
    // (iii) keywords
    let mut kws: Vec<LexGrammar> = vec![];
    for third in [None, Some("a"), Some("abca"), Some("cab")] { for space in [false, true] {
        let mut kwl = vec!["ab", "abc"];
        if let Some(t) = third { kwl.push(t); }
        let mut g = G::new(&format!("lxk_{}_{}", third.unwrap_or("none"), space as u8)).word("ident");
        let mut alts: Vec<Value> = kwl.iter().enumerate().map(|(i, _)| sym(&format!("k{}", i))).collect();
        alts.push(sym("ident"));
        g = g.rule("source", rep(choice(alts)));
        let mut toks = vec![];
        for (i, k) in kwl.iter().enumerate() { g = g.rule(&format!("k{}", i), s(k)); toks.push(TokDef { name: format!("k{}", i), expr: s(k), is_string: true, re: regex::escape(k), prec: 0, src: k.to_string() }); }
        g = g.rule("ident", pat("[a-c]+"));
        toks.push(TokDef { name: "ident".into(), expr: pat("[a-c]+"), is_string: false, re: "[a-c]+".into(), prec: 0, src: "[a-c]+".into() });
        g = g.extras(if space { vec![pat(" ")] } else { vec![] });
        let alphabet = if space { vec!["a", "b", "c", " "] } else { vec!["a", "b", "c"] };
        kws.push(LexGrammar { id: g.name.clone(), g, toks, kind: "keyword", space_extra: space, alphabet });
    } }
    // (vi) a `word` token next to PATTERN tokens that begin like a word and go on where the word token cannot (digits): such a
    // token is no keyword - it competes in the main lexer, by length and then by definition order
    let mut wordpats: Vec<LexGrammar> = vec![];
    for (pi, p) in ["ab[0-9]*", "a[0-9]+", "abc?[0-9]?", "[ab]+1"].iter().enumerate() { for first in [true, false] { for with_kw in [false, true] {
        let mut g = G::new(&format!("lxw_{}_{}_{}", pi, first as u8, with_kw as u8)).word("ident");
        let mut toks: Vec<TokDef> = vec![];
        let tagged = TokDef { name: "tagged".into(), expr: pat(p), is_string: false, re: p.to_string(), prec: 0, src: p.to_string() };
        let ident = TokDef { name: "ident".into(), expr: pat("[a-c]+"), is_string: false, re: "[a-c]+".into(), prec: 0, src: "[a-c]+".into() };
        let number = TokDef { name: "number".into(), expr: pat("[0-9]+"), is_string: false, re: "[0-9]+".into(), prec: 0, src: "[0-9]+".into() };
        let kw = TokDef { name: "kw".into(), expr: s("ab"), is_string: true, re: "ab".into(), prec: 0, src: "ab".into() };
        if with_kw { toks.push(kw); }
        if first { toks.push(tagged); toks.push(ident); } else { toks.push(ident); toks.push(tagged); }
        toks.push(number);
        g = g.rule("source", rep(choice(toks.iter().map(|t| sym(&t.name)).collect())));
        for t in &toks { g = g.rule(&t.name, t.expr.clone()); }
        g = g.extras(vec![pat(" ")]);
        wordpats.push(LexGrammar { id: g.name.clone(), g, toks, kind: "soup", space_extra: true, alphabet: vec!["a", "b", "c", "1", "2", " "] });
    } } }
    // (vii) tokens that contain the EXTRAS character inside (never at their start): in the two-context shape every token has
    // a lexer start state of its own, in which the blank is skipped in front of the token and consumed inside it
    let mut inner_sp: Vec<LexGrammar> = vec![];
    {
        // (ordered triples of such tokens were tried first and are left out: two tokens that differ only behind an inner blank,
        // e.g. a([ ]a)* and a[ ]b, are not seen as conflicting by the generator, their lex states are merged and "xa b" is
        // rejected - that is family (viii) and a known finding, see DESIGN section 5, round 8)
        let sm: Vec<&str> = vec!["(a[ ]*)*b", "a([ ]a)*", "(a[ ]*)+c?b", "a[ ]b", "(b[ ]*)*a?c", "(b[ ]*)*a?;", "([ab][ ]?)+;"];
        for (k, inner) in sm.iter().enumerate() { for first in ["[ab]+", "c+", "b"] .iter().enumerate() {
            let toks: Vec<TokDef> = vec![mk_tok(0, (first.1, false), None), mk_tok(1, ("c", true), None), mk_tok(2, (inner, false), None)];
            let mut g = G::new(&format!("lxi_{}_{}", k, first.0)).rule("source", choice(vec![seq(vec![s("x"), sym("t0"), sym("t1")]), seq(vec![s("y"), sym("t2")])]));
            for t in &toks { g = g.rule(&t.name, t.expr.clone()); }
            g = g.extras(vec![pat(" ")]);
            inner_sp.push(LexGrammar { id: g.name.clone(), g, toks, kind: "context", space_extra: true, alphabet: vec!["a", "b", "c", ";", " "] });
        } }
    }
    // (viii) a token that can go on with a character after a complete match and then fail (a(ba)*  on "ab|c"), beside a longer token
    // that goes on with the SAME character and succeeds (abc) but is valid only in the other context: the generator's conflict
    // test skips the pair (the completed token itself advances), merges the two lex states, and "xabc" is lexed as the token
    // that is not valid after `x` (known finding; found through the first form of family (vii))
    let mut merged_fam: Vec<LexGrammar> = vec![];
    for (k, (t0, t1, t2, space)) in [("a(ba)*", "bc", "abc", false), ("a([ ]a)*", "[ab]+", "a[ ]b", true), ("a(bc)*", "bb", "abb", false), ("(ab)+", "ac", "aba+c", false)].iter().enumerate() {
        let toks: Vec<TokDef> = vec![mk_tok(0, (t0, false), None), mk_tok(1, (t1, false), None), mk_tok(2, (t2, false), None)];
        let mut g = G::new(&format!("lxm_{}", k)).rule("source", choice(vec![seq(vec![s("x"), sym("t0"), sym("t1")]), seq(vec![s("y"), sym("t2")])]));
        for t in &toks { g = g.rule(&t.name, t.expr.clone()); }
        g = g.extras(if *space { vec![pat(" ")] } else { vec![] });
        merged_fam.push(LexGrammar { id: g.name.clone(), g, toks, kind: "context", space_extra: *space, alphabet: if *space { vec!["a", "b", " "] } else { vec!["a", "b", "c"] } });
    }
    // (iv) regex structure: every expression of nesting depth <= 2 over the atoms a, b, [ab] with the postfix operators
    // ? * + {0,1} {0,2} {1,2} {2} {2,} and the binary operators concatenation and alternation; sixteen of them per grammar,
    // each valid only after its own prefix character, so they never compete: the token after prefix k must match exactly
    // the strings the `regex` crate matches in full.
    let structs: Vec<LexGrammar> = {
        let res = structure_regexes(tier == "thorough");
        res.chunks(STRUCT_PREFIXES.len()).enumerate().map(|(gi, chunk)| {
            let toks: Vec<TokDef> = chunk.iter().enumerate().map(|(i, r)| TokDef { name: format!("t{}", i), expr: pat(r), is_string: false, re: r.clone(), prec: 0, src: r.clone() }).collect();
            let mut g = G::new(&format!("lxs{}_{}", if tier == "thorough" { "t" } else { "q" }, gi)).rule("source", choice(toks.iter().enumerate().map(|(i, t)| seq(vec![s(STRUCT_PREFIXES[i]), sym(&t.name)])).collect()));
            for t in &toks { g = g.rule(&t.name, t.expr.clone()); }
            g = g.extras(vec![]);
            LexGrammar { id: g.name.clone(), g, toks, kind: "structure", space_extra: false, alphabet: vec!["a", "b"] }
        }).collect()
    };
    // (v) large character classes: tokens built from Unicode properties (hundreds of ranges each, rendered as shared
    // character-set tables) that include, overlap or exclude one another, every ordered pair and triple in one state
    let classes: Vec<LexGrammar> = {
        let cm: Vec<&str> = vec!["\\p{L}+", "\\p{Lu}+!", "\\p{Ll}+\\?", "\\p{Lu}\\p{Ll}*", "[\\p{L}\\p{N}]+", "\\p{N}+", "[^\\p{L}\\s!?]+"];
        let mut lists: Vec<Vec<usize>> = vec![];
        for a in 0..cm.len() { for b in 0..cm.len() { if a != b { lists.push(vec![a, b]); for c in 0..cm.len() { if c != a && c != b && tier == "thorough" { lists.push(vec![a, b, c]); } } } } }
        lists.into_iter().map(|ixs| {
            let toks: Vec<TokDef> = ixs.iter().enumerate().map(|(i, &k)| mk_tok(i, (cm[k], false), None)).collect();
            let mut g = G::new(&format!("lxu_{}", ixs.iter().map(|k| k.to_string()).collect::<Vec<_>>().join("_"))).rule("source", rep(choice(toks.iter().map(|t| sym(&t.name)).collect())));
            for t in &toks { g = g.rule(&t.name, t.expr.clone()); }
            g = g.extras(vec![pat(" ")]);
            LexGrammar { id: g.name.clone(), g, toks, kind: "classes", space_extra: true, alphabet: vec!["a", "A", "é", "É", "1", "!", "?", " "] }
        }).collect()
    };
    let pick = |v: Vec<LexGrammar>| -> Vec<LexGrammar> {
        if cap == 0 || v.len() <= cap { return v; }
        let step = v.len() as f64 / cap as f64;
        let mut want: Vec<usize> = (0..cap).map(|k| (k as f64 * step) as usize).collect();
        want.dedup();
        v.into_iter().enumerate().filter(|(i, _)| want.binary_search(i).is_ok()).map(|(_, g)| g).collect()
    };
    let mut out = pick(soups);
    out.extend(pick(triples));
    out.extend(pick(ctx2));
    out.extend(kws);
    out.extend(inner_sp);
    out.extend(merged_fam);
    out.extend(structs);
    out.extend(classes);
    out.extend(wordpats);
    out
}

pub const STRUCT_PREFIXES: [&str; 16] = ["0", "1", "2", "3", "4", "5", "6", "7", "8", "9", "x", "y", "z", "u", "v", "w"];

/// the regex-structure box of family (iv), without the expressions that match the empty string (the generator rejects those)
pub fn structure_regexes(full: bool) -> Vec<String> {
    #[derive(Clone)]
    enum Re { Atom(&'static str), Un(Box<Re>, &'static str), Cat(Box<Re>, Box<Re>), Alt(Box<Re>, Box<Re>) }
    // binding strength: Alt 0 < Cat 1 < Un 2 < Atom 3
    fn show(r: &Re, min: u8) -> String {
        let (txt, lvl) = match r {
            Re::Atom(a) => (a.to_string(), 3),
            Re::Un(x, op) => (format!("{}{}", show(x, 3), op), 2),
            Re::Cat(a, b) => (format!("{}{}", show(a, 1), show(b, 2)), 1),
            Re::Alt(a, b) => (format!("{}|{}", show(a, 0), show(b, 1)), 0),
        };
        if lvl < min { format!("({})", txt) } else { txt }
    }
    let atoms: Vec<Re> = ["a", "b", "[ab]"].iter().map(|a| Re::Atom(a)).collect();
    let ops = ["?", "*", "+", "{0,1}", "{0,2}", "{1,2}", "{2}", "{2,}"];
    let cat = |a: &Re, b: &Re| Re::Cat(Box::new(a.clone()), Box::new(b.clone()));
    let alt = |a: &Re, b: &Re| Re::Alt(Box::new(a.clone()), Box::new(b.clone()));
    // S1 = quantified atoms, S2 = binary over atoms, S3 = an atom next to a quantified atom
    let s1: Vec<Re> = atoms.iter().flat_map(|a| ops.iter().map(move |op| Re::Un(Box::new(a.clone()), op))).collect();
    let mut s2: Vec<Re> = vec![];
    for a in &atoms { for b in &atoms { s2.push(cat(a, b)); s2.push(alt(a, b)); } }
    let mut s3: Vec<Re> = vec![];
    for a in &atoms { for q in &s1 { s3.push(cat(a, q)); if full { s3.push(cat(q, a)); } } }
    let small: Vec<Re> = atoms.iter().chain(s1.iter()).cloned().collect();
    let l1: Vec<Re> = small.iter().chain(s2.iter()).cloned().collect();
    let mut all: Vec<Re> = l1.clone();
    for x in l1.iter().skip(atoms.len()) { for op in ops { all.push(Re::Un(Box::new(x.clone()), op)); } }
    for a in &l1 { for b in &l1 { all.push(cat(a, b)); all.push(alt(a, b)); } }
    // depth 3: S3 beside a small expression (quick) or beside anything of depth <= 1 and S3 itself (thorough)
    let partners: Vec<Re> = if full { l1.iter().chain(s3.iter()).cloned().collect() } else { small.clone() };
    for x in &s3 { for y in &partners { all.push(cat(x, y)); all.push(alt(x, y)); all.push(cat(y, x)); all.push(alt(y, x)); } }
    if full { for x in &s3 { for op in ops { all.push(Re::Un(Box::new(x.clone()), op)); } } }
    let mut seen = std::collections::HashSet::new();
    let mut out = vec![];
    for r in &all {
        let t = show(r, 0);
        if !seen.insert(t.clone()) { continue; }
        if Regex::new(&format!("^(?:{})$", t)).expect("structure regex compiles").is_match("") { continue; }
        out.push(t);
    }
    out
}

struct RefLexer { res: Vec<Regex> }

impl RefLexer {
    fn new(toks: &[TokDef]) -> RefLexer { RefLexer { res: toks.iter().map(|t| Regex::new(&format!("^(?:{})$", t.re)).expect("menu regex compiles")).collect() } }
    /// longest match length (>0) of token k at `pos`, testing every prefix with an anchored regex
    fn longest(&self, k: usize, text: &str, pos: usize) -> Option<usize> {
        let rest = &text[pos..];
        let mut best = None;
        let mut ends: Vec<usize> = rest.char_indices().map(|(i, _)| i).skip(1).collect();
        ends.push(rest.len());
        for e in ends { if self.res[k].is_match(&rest[..e]) { best = Some(e); } }
        best
    }
    /// choose among `valid` token indices by the documented order; returns (token, length) and whether >=2 tokens matched
    fn choose(&self, toks: &[TokDef], valid: &[usize], text: &str, pos: usize) -> (Option<(usize, usize)>, bool) {
        let mut cands: Vec<(usize, usize)> = vec![];
        for &k in valid { if let Some(l) = self.longest(k, text, pos) { cands.push((k, l)); } }
        let contested = cands.len() >= 2;
        if cands.is_empty() { return (None, false); }
        let maxp = cands.iter().map(|&(k, _)| toks[k].prec).max().unwrap();
        cands.retain(|&(k, _)| toks[k].prec == maxp);
        let maxl = cands.iter().map(|&(_, l)| l).max().unwrap();
        cands.retain(|&(_, l)| l == maxl);
        if cands.iter().any(|&(k, _)| toks[k].is_string) { cands.retain(|&(k, _)| toks[k].is_string); }
        (Some(cands[0]), contested) // earliest definition: `valid` is in definition order
    }
}

/// reference tokenization; None = some position has no matching token / the token sequence is not a sentence
fn reference(lg: &LexGrammar, rl: &RefLexer, text: &str) -> (Option<Vec<(String, usize, usize)>>, bool) {
    let mut out = vec![];
    let mut pos = 0;
    let mut contested = false;
    let bytes = text.as_bytes();
    let skip = |mut p: usize| { if lg.space_extra { while p < bytes.len() && bytes[p] == b' ' { p += 1; } } p };
    match lg.kind {
        "soup" | "classes" => {
            let all: Vec<usize> = (0..lg.toks.len()).collect();
            loop {
                pos = skip(pos);
                if pos >= text.len() { break; }
                let (c, ct) = rl.choose(&lg.toks, &all, text, pos);
                contested |= ct;
                let Some((k, l)) = c else { return (None, contested) };
                out.push((lg.toks[k].name.clone(), pos, pos + l));
                pos += l;
            }
            (Some(out), contested)
        }
        "structure" => {
            // <prefix k> t_k, nothing else: t_k must match the whole rest
            if text.is_empty() { return (None, false); }
            let Some(k) = STRUCT_PREFIXES.iter().position(|p| text.starts_with(p)) else { return (None, false) };
            if k >= lg.toks.len() { return (None, false); }
            out.push((STRUCT_PREFIXES[k].to_string(), 0, 1));
            match rl.longest(k, text, 1) {
                Some(l) if 1 + l == text.len() => { out.push((lg.toks[k].name.clone(), 1, text.len())); (Some(out), true) }
                _ => (None, false),
            }
        }
        "context" => {
            // x t0 t1 | y t2
            pos = skip(pos);
            if pos >= text.len() { return (None, false); }
            let first = &text[pos..pos + 1];
            let seq: Vec<usize> = match first { "x" => vec![0, 1], "y" => vec![2], _ => return (None, false) };
            out.push((first.to_string(), pos, pos + 1));
            pos += 1;
            for k in seq {
                pos = skip(pos);
                let (c, _) = rl.choose(&lg.toks, &[k], text, pos);
                let Some((k, l)) = c else { return (None, contested) };
                out.push((lg.toks[k].name.clone(), pos, pos + l));
                pos += l;
            }
            pos = skip(pos);
            if pos != text.len() { return (None, contested); }
            (Some(out), true)
        }
        _ => {
            // keywords: the word token is matched first, then compared with the keywords as a whole
            let ident = lg.toks.len() - 1;
            loop {
                pos = skip(pos);
                if pos >= text.len() { break; }
                let Some(l) = rl.longest(ident, text, pos) else { return (None, contested) };
                let word = &text[pos..pos + l];
                let kw = lg.toks[..ident].iter().position(|t| t.src == word);
                if kw.is_some() { contested = true; }
                out.push((lg.toks[kw.unwrap_or(ident)].name.clone(), pos, pos + l));
                pos += l;
            }
            (Some(out), contested)
        }
    }
}

fn case_json(lg: &LexGrammar, text: &str) -> Value {
    json!({"grammar_id": lg.id, "kind": lg.kind, "tokens": lg.toks.iter().map(|t| format!("{}={}", t.name, t.src)).collect::<Vec<_>>(), "space_extra": lg.space_extra, "text": text})
}

pub fn check_grammar(lg: &LexGrammar, maxlen: usize, res: &mut ShardResult) {
    crate::case!("{}", json!({"grammar_id": lg.id, "stage": "generate"}));
    let l = match lang::build(&LangSpec { name: lg.g.name.clone(), grammar_json: lg.g.to_json(), scanner_c: None }, OptLevel::default()) {
        Ok(l) => l,
        Err(lang::BuildError::Generate(_)) => { res.count("rejected_by_generator", 1); return; }
        Err(e) => { res.violation("generated-parser-does-not-compile", format!("{}", e), case_json(lg, "")); return; }
    };
    res.states += 1;
    let rl = RefLexer::new(&lg.toks);
    let mut parser = Parser::new();
    parser.set_language(&l.language).unwrap();
    let prefixes: Vec<&str> = if lg.kind == "context" { vec!["x", "y"] } else if lg.kind == "structure" { STRUCT_PREFIXES[..lg.toks.len()].to_vec() } else { vec![""] };
    let maxlen = if lg.kind == "classes" { maxlen.min(4) } else { maxlen };
    for len in 0..=maxlen {
        let mut stop = false;
        let mut run = |ix: &[usize], res: &mut ShardResult| {
            for pre in &prefixes {
                let mut text = pre.to_string();
                for &i in ix { text.push_str(lg.alphabet[i]); }
                crate::case!("{}", case_json(lg, &text));
                res.transitions += 1;
                let tree = parser.parse(&text, None).unwrap();
                let xt = XTree::build(&tree);
                let (want, contested) = reference(lg, &rl, &text);
                if contested { res.nontrivial += 1; }
                match want {
                    None => { if !xt.root_has_error() { res.violation("accepts-untokenizable-input", format!("reference tokenizer fails on {:?} but the parse reports no error: {}", text, xt.sexp(&l.language)), case_json(lg, &text)); } }
                    Some(w) => {
                        // Known finding (family (viii), see known_findings.json): the first token of the `x` branch is returned as the
                        // longer token that is valid only after `y`, because the two ended up in one merged lex state.
                        let merged = lg.id.starts_with("lxm_") && text.trim_start().starts_with('x') && xt.sexp(&l.language).contains("(t2)");
                        if xt.root_has_error() { res.violation(if merged { "merged-lex-state-returns-token-invalid-in-state" } else { "rejects-tokenizable-input" }, format!("{:?}: documented rules give {:?} but the parse has an error: {}", text, w, xt.sexp(&l.language)), case_json(lg, &text)); return; }
                        let got: Vec<(String, usize, usize)> = xt.nodes.iter().filter(|n| n.children.is_empty() && !n.extra && n.end > n.start).map(|n| (l.language.node_kind_for_id(n.kind_id).unwrap_or("?").to_string(), n.start, n.end)).collect();
                        if got != w {
                            // Known finding: with a `word` token, a string that is extracted as a keyword takes part in the lexing
                            // only THROUGH the word token; a pattern declared before the word token that matches the same text wins
                            // against the word token and thereby against the string, although the documented rule prefers strings
                            let first_diff = got.iter().zip(w.iter()).find(|(a, b)| a != b);
                            let shadowed = lg.id.starts_with("lxw_") && got.len() == w.len() && matches!(first_diff, Some((a, b)) if a.0 == "tagged" && b.0 == "kw" && a.1 == b.1 && a.2 == b.2)
                                && got.iter().zip(w.iter()).all(|(a, b)| a == b || (a.0 == "tagged" && b.0 == "kw" && a.1 == b.1 && a.2 == b.2));
                            res.violation(if shadowed { "string-keyword-loses-to-earlier-pattern" } else { "wrong-token-chosen" }, format!("{:?}: documented rules give {:?}, the lexer produced {:?}", text, w, got), case_json(lg, &text));
                        }
                    }
                }
                res.outcome(xt.nodes.len() as u64);
            }
        };
        if len == 0 { run(&[], res); continue; }
        crate::util::for_each_seq(lg.alphabet.len(), len, |ix| { if !stop { run(ix, res); if res.too_many() { stop = true; } } });
        if stop { break; }
    }
    if res.samples.len() < 2 { res.sample(case_json(lg, "abab")); }
    let _ = std::fs::remove_file(&l.so_path);
}

pub fn worker(ctx: &Ctx, res: &mut ShardResult) {
    let (n, _) = params(&ctx.tier);
    for (i, lg) in grammars(&ctx.tier).iter().enumerate() {
        if !ctx.mine(i) { continue; }
        check_grammar(lg, n, res);
        if res.too_many() { return; }
        if ctx.out_of_time() { res.caps.push("wall-clock budget reached".into()); return; }
    }
}

pub fn replay(case: &Value) -> Vec<String> {
    let case = if case.get("kind").and_then(|k| k.as_str()) == Some("crash") { &case["case"] } else { case };
    let id = case["grammar_id"].as_str().unwrap_or("");
    let Some(lg) = grammars("thorough").into_iter().chain(grammars("quick")).find(|g| g.id == id) else { return vec![format!("unknown grammar {}", id)] };
    let mut r = ShardResult::new();
    check_grammar(&lg, 5, &mut r);
    r.violations.iter().map(|v| format!("{}: {}", v.fingerprint, v.what)).collect()
}
