//! C13: parsing with included ranges == parsing the concatenation of the ranges, mapped back to document coordinates.
use crate::checks::c_hist::build_info;
use crate::run::{CheckMeta, Ctx, ShardResult};
use crate::text;
use crate::wf::LangInfo;
use crate::xtree::XTree;
use serde_json::{json, Value};
use tree_sitter::{Parser, Point, Range};

pub fn meta(tier: &str) -> CheckMeta {
    let (maxlen, nr) = params(tier);
    CheckMeta {
        id: "C13", level: "model_checking",
        rule: "E-box: for every document (seeds + lexeme strings, <= maxlen bytes) of the zoo languages with and without external scanners and EVERY list of 1..nr ranges whose boundaries are drawn from all byte positions 0..|d| plus {|d|+3, u32::MAX} (empty, adjacent, token/line/character-splitting ranges, ranges past EOF): tree of (document, ranges) vs tree of the concatenated text under the offset map (starts map to the later range, ends to the earlier one), no leaf starts/ends strictly inside excluded text, Tree::included_ranges returns what was set; plus the complete setter-validation box (all lists of <=3 ranges over a 6-point grid incl. unordered/overlapping/inverted). Non-trivial = range list that excludes at least one byte inside the document.",
        assumptions: vec!["shape equality is asserted when the concatenation parses without ERROR/MISSING; otherwise only agreement on has_error (recovery costs depend on byte sizes, which include excluded gaps)".into()],
        exhaustive: true,
        bounds: json!({"passes_(max_doc_bytes,max_ranges)": passes(tier), "max_doc_bytes": maxlen, "max_ranges": nr, "setter_grid": [0, 2, 4, 6, 9, 4294967295u32]}),
    }
}

/// passes of (max document bytes, max number of ranges)
pub fn passes(tier: &str) -> Vec<(usize, usize)> { if tier == "mini" { vec![(5, 2)] } else if tier == "quick" { vec![(14, 2), (10, 3), (6, 4)] } else { vec![(18, 2), (12, 3), (8, 4)] } }
pub fn params(tier: &str) -> (usize, usize) { let p = passes(tier); (p[0].0, p.last().unwrap().1) }

fn case_json(lang: &str, doc: &[u8], ranges: &[(usize, usize)]) -> Value {
    json!({"lang": lang, "doc": crate::util::bytes_json(doc), "ranges": ranges})
}

pub fn mk_range(d: &[u8], s: usize, e: usize) -> Range {
    let pt = |b: usize| if b > d.len() { let p = text::point_at(d, d.len()); Point { row: p.row, column: p.column + (b.min(1 << 30) - d.len()) } } else { text::point_at(d, b) };
    let pe = if e == u32::MAX as usize { Point { row: u32::MAX as usize, column: u32::MAX as usize } } else { pt(e) };
    Range { start_byte: s, end_byte: e, start_point: pt(s), end_point: pe }
}

/// Check one (document, range list). Returns violations as (fingerprint, message).
pub fn check_one(info: &LangInfo, parser: &mut Parser, d: &[u8], ranges: &[(usize, usize)]) -> Vec<(String, String)> {
    let mut errs = vec![];
    let rs: Vec<Range> = ranges.iter().map(|&(s, e)| mk_range(d, s, e)).collect();
    if parser.set_included_ranges(&rs).is_err() { errs.push(("setter-rejected-valid-list".into(), format!("{:?}", ranges))); return errs; }
    let got_set = parser.included_ranges();
    if got_set != rs { errs.push(("parser-included-ranges-differ".into(), format!("set {:?} got {:?}", rs, got_set))); }
    let tree = parser.parse(d, None).unwrap();
    parser.set_included_ranges(&[]).unwrap();
    if tree.included_ranges() != rs { errs.push(("tree-included-ranges-differ".into(), format!("parsed with {:?} but tree reports {:?}", rs, tree.included_ranges()))); }
    // concatenation and offset map
    let len = d.len();
    let clipped: Vec<(usize, usize)> = ranges.iter().map(|&(s, e)| (s.min(len), e.min(len))).filter(|&(s, e)| e > s).collect();
    let mut c = vec![];
    let mut seg: Vec<(usize, usize, usize)> = vec![]; // (offset in c, doc start, doc end)
    for &(s, e) in &clipped { seg.push((c.len(), s, e)); c.extend_from_slice(&d[s..e]); }
    let mut p2 = Parser::new();
    p2.set_language(&info.language).unwrap();
    let tc = p2.parse(&c, None).unwrap();
    let xc = XTree::build(&tc);
    let xr = XTree::build(&tree);
    let map_start = |q: usize| -> Vec<usize> {
        // a start at a seam belongs to the later range; at the very end of c it can only be the end of the last range
        let mut out = vec![];
        for &(o, s, e) in &seg { if q >= o && q < o + (e - s) { out.push(s + (q - o)); } }
        if out.is_empty() { if let Some(&(o, s, e)) = seg.last() { if q == o + (e - s) { out.push(e); } } else { out.push(0); } }
        out
    };
    let map_end = |q: usize| -> Vec<usize> {
        let mut out = vec![];
        for &(o, s, e) in &seg { if q > o && q <= o + (e - s) { out.push(s + (q - o)); } }
        if out.is_empty() { if let Some(&(_, s, _)) = seg.first() { if q == 0 { out.push(s); } } else { out.push(0); } }
        out
    };
    let kind_name = |k: u16| info.language.node_kind_for_id(k).unwrap_or("");
    let conc_bad = xc.has_error_or_missing();
    if !conc_bad {
        if xc.nodes.len() != xr.nodes.len() { errs.push(("ranges-shape-differs".into(), format!("ranges tree {} vs concatenation tree {}", xr.sexp(&info.language), xc.sexp(&info.language)))); }
        else {
            for i in 0..xc.nodes.len() {
                let (a, b) = (&xr.nodes[i], &xc.nodes[i]);
                // `seam`: the scanner asks whether a word begins at the first byte of an included range, which the stand-alone
                // text cannot mirror: the word's kind is expected from the range list itself
                let want_kind = if info.name == "seam" && (kind_name(b.kind_id) == "seam_word" || kind_name(b.kind_id) == "plain_word") {
                    let at_start = clipped.iter().any(|&(s, _)| s == a.start);
                    info.language.id_for_node_kind(if at_start { "seam_word" } else { "plain_word" }, true)
                } else { b.kind_id };
                if a.kind_id != want_kind || a.children.len() != b.children.len() || a.field_id != b.field_id || a.named != b.named || a.extra != b.extra || a.missing != b.missing {
                    errs.push(("ranges-shape-differs".into(), format!("node #{}: {} vs {}", i, xr.brief(i), xc.brief(i)))); break;
                }
                let (ws, we) = if b.start == b.end {
                    // zero-width nodes (MISSING, empty root): any range boundary at that place of the concatenation is acceptable
                    let mut v = map_start(b.start); v.extend(map_end(b.start));
                    for &(s, e) in ranges { v.push(s.min(len)); v.push(e.min(len)); v.push(s); v.push(e); }
                    (v.clone(), v)
                } else { (map_start(b.start), map_end(b.end)) };
                if !ws.contains(&a.start) || !we.contains(&a.end) {
                    errs.push(("ranges-position-map".into(), format!("node #{}: concatenation {}..{} maps to {:?}..{:?} but the ranges tree has {}..{}", i, b.start, b.end, ws, we, a.start, a.end))); break;
                }
                if a.start <= len && a.sp != text::point_at(d, a.start) { errs.push(("ranges-point".into(), format!("node #{} start {} has point {:?}, document says {:?}", i, a.start, a.sp, text::point_at(d, a.start)))); break; }
                if a.end <= len && a.ep != text::point_at(d, a.end) { errs.push(("ranges-point".into(), format!("node #{} end {} has point {:?}, document says {:?}", i, a.end, a.ep, text::point_at(d, a.end)))); break; }
            }
        }
    } else if !xr.root_has_error() && !(c.is_empty()) {
        errs.push(("ranges-hide-error".into(), format!("concatenation has an error but ranges tree reports none: {}", xr.sexp(&info.language))));
    }
    // no leaf covers excluded text: a non-empty leaf starts inside an included range and ends inside (or at the end of) one
    for (i, n) in xr.nodes.iter().enumerate() {
        if !n.children.is_empty() || n.start == n.end { continue; }
        let start_ok = clipped.iter().any(|&(s, e)| s <= n.start && n.start < e);
        let end_ok = clipped.iter().any(|&(s, e)| s < n.end && n.end <= e);
        if !start_ok || !end_ok {
            // Known finding: the extent of an ERROR leaf for skipped characters is taken from raw lexer positions, not through
            // the seam rule of mark_end: it may end at the start of the next range or start at a skipped empty range.
            let fp = if n.is_error { "error-leaf-extent-ignores-range-seam" } else { "leaf-in-excluded-text" };
            errs.push((fp.into(), format!("leaf #{} {} with ranges {:?}", i, xr.brief(i), clipped)));
            break;
        }
    }
    // Known finding: a range boundary inside a multi-byte character does not cut the character (the lexer decodes the whole
    // character), so trees for such range lists follow different rules; they get their own fingerprint.
    if let Ok(st) = std::str::from_utf8(d) {
        let splits_char = ranges.iter().any(|&(s, e)| [s, e].iter().any(|&b| b < len && !st.is_char_boundary(b)));
        if splits_char { for e in errs.iter_mut() { e.0 = "range-boundary-splits-character".into(); } }
    }
    errs
}

fn range_lists(positions: &[usize], nr: usize) -> Vec<Vec<(usize, usize)>> {
    // all lists of 1..nr ranges with s0<=e0<=s1<=e1... drawn from `positions` (sorted)
    let mut out = vec![];
    fn rec(pos: &[usize], from: usize, left: usize, cur: &mut Vec<usize>, out: &mut Vec<Vec<(usize, usize)>>) {
        if cur.len() % 2 == 0 && !cur.is_empty() { out.push(cur.chunks(2).map(|c| (c[0], c[1])).collect()); }
        if left == 0 { return; }
        for i in from..pos.len() { cur.push(pos[i]); rec(pos, i, left - 1, cur, out); cur.pop(); }
    }
    rec(positions, 0, 2 * nr, &mut vec![], &mut out);
    out
}

pub fn worker(ctx: &Ctx, res: &mut ShardResult) {
    let (maxlen, _nr) = params(&ctx.tier);
    let mut idx = 0usize;
    let mut langs = crate::zoo::core_zoo();
    langs.push(crate::zoo::seam());
    for z in langs.iter() {
        // `colm` is left out: its scanner asks for the column (TSLexer.get_column), which is a property of the document line,
        // not of the included text, so the concatenated stand-alone text is a different input for it by design
        if z.name == "colm" || z.name == "docol" { continue; }
        let info = build_info(z);
        let mut parser = Parser::new();
        parser.set_language(&info.language).unwrap();
        let docs: Vec<Vec<u8>> = crate::docs::docs(z, 2).into_iter().filter(|d| !d.is_empty() && d.len() <= maxlen).collect();
        for d in docs.iter() {
            idx += 1;
            if !ctx.mine(idx) { continue; }
            let mut positions: Vec<usize> = (0..=d.len()).collect();
            positions.push(d.len() + 3);
            positions.push(u32::MAX as usize);
            let nr = passes(&ctx.tier).iter().filter(|(ml, _)| d.len() <= *ml).map(|(_, n)| *n).max().unwrap_or(1);
            for rl in range_lists(&positions, nr) {
                crate::case!("{}", case_json(z.name, d, &rl));
                res.transitions += 1;
                let errs = check_one(&info, &mut parser, d, &rl);
                let covered: usize = rl.iter().map(|&(s, e)| e.min(d.len()).saturating_sub(s.min(d.len()))).sum();
                if covered < d.len() && covered > 0 { res.nontrivial += 1; }
                res.outcome(covered as u64 * 16 + rl.len() as u64);
                for (fp, m) in errs { res.violation(&fp, m, case_json(z.name, d, &rl)); }
                if res.too_many() { return; }
            }
            res.states += 1;
            if res.samples.len() < 2 && d.len() > 4 { res.sample(case_json(z.name, d, &[(1, 3), (4, d.len())])); }
            if ctx.out_of_time() { res.caps.push("wall-clock budget reached".into()); return; }
        }
        // fixed longer documents with many ranges
        for s in z.seeds.iter().filter(|s| s.len() > maxlen && s.len() < 60) {
            idx += 1;
            if !ctx.mine(idx) { continue; }
            let d = s.as_bytes();
            for step in [2usize, 3, 5] {
                let mut rl = vec![];
                let mut p = 0;
                while p < d.len() && rl.len() < 8 { rl.push((p, (p + step).min(d.len()))); p += step + 1; }
                crate::case!("{}", case_json(z.name, d, &rl));
                res.transitions += 1;
                res.nontrivial += 1;
                for (fp, m) in check_one(&info, &mut parser, d, &rl) { res.violation(&fp, m, case_json(z.name, d, &rl)); }
            }
        }
    }
    // setter validation: the complete box over a 6-point grid, up to 3 ranges, any order
    let info = build_info(&crate::zoo::arith());
    let grid = [0usize, 2, 4, 6, 9, u32::MAX as usize];
    let d = b"1+2*3+4*5";
    let mut lists: Vec<Vec<(usize, usize)>> = vec![vec![]];
    for n in 1..=3usize {
        crate::util::for_each_seq(grid.len(), 2 * n, |ix| lists.push(ix.chunks(2).map(|c| (grid[c[0]], grid[c[1]])).collect()));
    }
    let mut parser = Parser::new();
    parser.set_language(&info.language).unwrap();
    for rl in lists {
        idx += 1;
        if !ctx.mine(idx) { continue; }
        crate::case!("{}", json!({"part": "setter", "ranges": rl}));
        res.transitions += 1;
        let rs: Vec<Range> = rl.iter().map(|&(s, e)| mk_range(d, s.min(e), s.min(e)).clone()).zip(rl.iter()).map(|(_, &(s, e))| Range { start_byte: s, end_byte: e, start_point: Point { row: 0, column: s.min(1 << 30) }, end_point: Point { row: 0, column: e.min(1 << 30) } }).collect();
        let mut want: Result<(), usize> = Ok(());
        let mut prev = 0usize;
        for (i, &(s, e)) in rl.iter().enumerate() { if s < prev || e < s { want = Err(i); break; } prev = e; }
        parser.set_included_ranges(&[]).unwrap();
        let got = parser.set_included_ranges(&rs).map_err(|e| e.0);
        if got != want { res.violation("setter-validation", format!("ranges {:?}: setter returned {:?}, ordered/non-overlapping rule says {:?}", rl, got, want), json!({"part": "setter", "ranges": rl})); }
        let now = parser.included_ranges();
        if want.is_ok() && !rl.is_empty() && now != rs { res.violation("setter-readback", format!("set {:?} read back {:?}", rs, now), json!({"part": "setter", "ranges": rl})); }
        if (want.is_err() || rl.is_empty()) && !(now.len() == 1 && now[0].start_byte == 0 && now[0].end_byte == u32::MAX as usize) {
            res.violation("setter-readback", format!("after a rejected/empty list the parser should keep the default full range, has {:?}", now), json!({"part": "setter", "ranges": rl}));
        }
        if want.is_err() { res.nontrivial += 1; }
    }
}

pub fn replay(case: &Value) -> Vec<String> {
    let case = if case.get("kind").and_then(|k| k.as_str()) == Some("crash") { &case["case"] } else { case };
    if case.get("part").is_some() {
        // setter validation: one range list against the ordered / non-overlapping rule
        let rl: Vec<(usize, usize)> = case["ranges"].as_array().map(|a| a.iter().map(|r| (r[0].as_u64().unwrap_or(0) as usize, r[1].as_u64().unwrap_or(0) as usize)).collect()).unwrap_or_default();
        let info = build_info(&crate::zoo::arith());
        let mut parser = Parser::new();
        parser.set_language(&info.language).unwrap();
        let rs: Vec<Range> = rl.iter().map(|&(s, e)| Range { start_byte: s, end_byte: e, start_point: Point { row: 0, column: s.min(1 << 30) }, end_point: Point { row: 0, column: e.min(1 << 30) } }).collect();
        let mut want: Result<(), usize> = Ok(());
        let mut prev = 0usize;
        for (i, &(s, e)) in rl.iter().enumerate() { if s < prev || e < s { want = Err(i); break; } prev = e; }
        let got = parser.set_included_ranges(&rs).map_err(|e| e.0);
        println!("ranges {:?}: setter returned {:?}, rule says {:?}; parser now has {:?}", rl, got, want, parser.included_ranges().iter().map(|r| (r.start_byte, r.end_byte)).collect::<Vec<_>>());
        return if got != want { vec![format!("setter-validation: ranges {:?}: setter returned {:?}, ordered/non-overlapping rule says {:?}", rl, got, want)] } else { vec![] };
    }
    let name = case["lang"].as_str().unwrap_or("");
    let Some(z) = crate::zoo::by_name(name) else { return vec![format!("unknown language {}", name)] };
    let info = build_info(&z);
    let d = crate::util::bytes_from_json(&case["doc"]);
    let rl: Vec<(usize, usize)> = case["ranges"].as_array().unwrap().iter().map(|r| (r[0].as_u64().unwrap() as usize, r[1].as_u64().unwrap() as usize)).collect();
    let mut parser = Parser::new();
    parser.set_language(&info.language).unwrap();
    check_one(&info, &mut parser, &d, &rl).into_iter().map(|(f, m)| format!("{}: {}", f, m)).collect()
}
