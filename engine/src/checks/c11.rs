//! C11: query cursor views agree: captures vs matches, ranges, reuse, limits, removal, predicates.
use crate::checks::c_hist::build_info;
use crate::run::{CheckMeta, Ctx, ShardResult};
use crate::text::LineTable;
use crate::xtree::XTree;
use regex::bytes::Regex;
use serde_json::{json, Value};
use std::collections::HashMap;
use streaming_iterator::StreamingIterator;
use tree_sitter::{Node, Parser, Point, Query, QueryCursor, Tree};

pub fn meta(tier: &str) -> CheckMeta {
    CheckMeta {
        id: "C11", level: "model_checking",
        rule: "E-box over (query, tree, cursor configuration). Queries: a list of single patterns (all shapes of the C05 family that matter for cursor bookkeeping: nested, alternation, quantified, wildcard, fielded, non-rooted sibling groups), every ordered pair of them as a two-pattern query, and predicate queries (#eq? capture/string, #not-eq?, #any-eq?, #any-not-eq?, #match?, #not-match?, #any-of?, #not-any-of?) over single and quantified captures. Trees: seeds + strings of <=2 lexemes of stmts and jsonish, valid and erroneous. Per pair: (1) the capture stream's (pattern, capture, node) triples equal, as a multiset, those of the match stream and come in non-decreasing start-byte order; (2) for EVERY byte range [a,b) with a<b (documents <= 24 bytes; a grid beyond) and the corresponding point ranges: rooted patterns with a captured root return exactly the unrestricted matches whose root intersects the range, other patterns are sandwiched; containing ranges return exactly the matches all of whose captured nodes lie inside; the capture stream under a range equals the in-range captures of the matches under that range; (3) re-exec on the same cursor, a fresh cursor and a cursor previously used with another query and range give identical streams; max_start_depth in {0,1,2} equals filtering by root depth; (4) match limits 1,2,3,4,8: any difference from the unlimited streams implies did_exceed_match_limit; (5) remove_match at every capture position k: the rest of the stream is the original rest minus that match's captures; (6) the Rust iterators return exactly the raw matches for which our own evaluation of the text predicates holds, for contiguous and chunked text providers. Queued matches: every nesting structure of <=N arrays x first elements {1,2} and flat arrays of <=M numbers under multi-capture queries with text predicates; the capture stream is in document order and equals the predicate-filtered matches. Non-trivial = configurations whose unrestricted match list is non-empty.",
        assumptions: vec!["document order of captures is asserted on start bytes only".into()],
        exhaustive: true,
        bounds: json!({"tier": tier, "all_ranges_up_to_bytes": 24, "match_limits": [1, 2, 3, 4, 8]}),
    }
}

#[derive(Clone, Debug, PartialEq, Eq, Hash, PartialOrd, Ord)]
pub struct MatchRec { pub pattern: usize, pub id: u32, pub caps: Vec<(u32, usize)> }
#[derive(Clone, Debug, PartialEq, Eq, Hash, PartialOrd, Ord)]
pub struct CapRec { pub pattern: usize, pub match_id: u32, pub cap: u32, pub node: usize }

thread_local! { pub static NODE_MISMATCH: std::cell::RefCell<Option<String>> = std::cell::RefCell::new(None); }

pub struct Env<'a> { pub tree: &'a Tree, pub text: &'a [u8], pub xt: &'a XTree, pub ids: HashMap<usize, usize> }

impl<'a> Env<'a> {
    pub fn new(tree: &'a Tree, text: &'a [u8], xt: &'a XTree) -> Self { Env { tree, text, xt, ids: xt.nodes.iter().enumerate().map(|(i, n)| (n.id, i)).collect() } }
    fn idx(&self, n: Node) -> usize {
        let i = *self.ids.get(&n.id()).unwrap_or(&usize::MAX);
        // the node handed out must be that node of the tree: same kind (aliases included) and extent
        if let Some(x) = self.xt.nodes.get(i) {
            if x.kind_id != n.kind_id() || x.start != n.start_byte() || x.end != n.end_byte() {
                NODE_MISMATCH.with(|m| *m.borrow_mut() = Some(format!("node #{} {} was handed out as kind {} {}..{}", i, self.xt.brief(i), n.kind(), n.start_byte(), n.end_byte())));
            }
        }
        i
    }
    pub fn matches(&self, cursor: &mut QueryCursor, q: &Query) -> Vec<MatchRec> {
        let mut out = vec![];
        let mut it = cursor.matches(q, self.tree.root_node(), self.text);
        while let Some(m) = it.next() { out.push(MatchRec { pattern: m.pattern_index, id: m.id(), caps: m.captures.iter().map(|c| (c.index, self.idx(c.node))).collect() }); if out.len() > 5000 { break; } }
        out
    }
    pub fn captures(&self, cursor: &mut QueryCursor, q: &Query) -> Vec<CapRec> {
        let mut out = vec![];
        let mut it = cursor.captures(q, self.tree.root_node(), self.text);
        while let Some((m, ci)) = it.next() { let c = m.captures[*ci]; out.push(CapRec { pattern: m.pattern_index, match_id: m.id(), cap: c.index, node: self.idx(c.node) }); if out.len() > 20000 { break; } }
        out
    }
}

fn triples_of_matches(ms: &[MatchRec]) -> Vec<(usize, u32, usize)> { let mut v: Vec<_> = ms.iter().flat_map(|m| m.caps.iter().map(move |c| (m.pattern, c.0, c.1))).collect(); v.sort(); v }
fn triples_of_caps(cs: &[CapRec]) -> Vec<(usize, u32, usize)> { let mut v: Vec<_> = cs.iter().map(|c| (c.pattern, c.cap, c.node)).collect(); v.sort(); v }
fn strip_ids(ms: &[MatchRec]) -> Vec<(usize, Vec<(u32, usize)>)> { ms.iter().map(|m| (m.pattern, m.caps.clone())).collect() }

const PATTERNS: [&str; 19] = [
    "(identifier) @id",
    "(binary left: (_) @l right: (_) @r) @b",
    "(call fn: (identifier) @f args: (args (_) @arg)) @c",
    "(block (_)* @s) @blk",
    "(let_stmt name: (name) @n value: (_) @v)",
    "[(number) @num (identifier) @ident]",
    "(_ (identifier) @child) @parent",
    "((identifier) @a . (number) @b)",
    "(expr_stmt (_) @e) @st",
    "(if_stmt cond: (_) @c then: (block) @t)",
    "(args (identifier)+ @ids)",
    "(ERROR) @err",
    "(comment)+ @doc",
    "(binary (binary) @inner) @outer",
    // a field that sits on a repeat (every statement of a block carries it, comments in between do not)
    "(block stmt: (_) @s) @blk2",
    "(block stmt: (expr_stmt (identifier) @first) . stmt: (_) @next)",
    // an anchored step that the grammar guarantees (the next child of a fixed sequence) and that an extra can still defeat
    "(let_stmt name: (name) @n . value: (_) @v)",
    "(binary left: (_) @l . right: (_) @r)",
    "(call fn: (identifier) @f . args: (args) @a)",
];
const JSON_PATTERNS: [&str; 6] = ["(pair key: (string) @k value: (_) @v) @p", "(array (_) @e) @a", "(string (string_content)? @c) @s", "(number) @n", "[(true) (false) (null)] @lit", "(object (pair)* @ps) @o"];

const PREDICATES: [&str; 15] = [
    // predicates over two captures bound at different steps, the later of which the grammar guarantees
    "((let_stmt name: (name) @n value: (_) @v) (#eq? @n @v))",
    "((let_stmt name: (name) @n value: (_) @v) (#not-eq? @n @v))",
    "((call fn: (identifier) @f args: (args) @a) (#not-eq? @f @a))",
    "((identifier) @a (#eq? @a \"a\"))",
    "((identifier) @a (#not-eq? @a \"a\"))",
    "((binary left: (identifier) @l right: (identifier) @r) (#eq? @l @r))",
    "((binary left: (identifier) @l right: (identifier) @r) (#not-eq? @l @r))",
    "((args (identifier)+ @ids) (#eq? @ids \"a\"))",
    "((args (identifier)+ @ids) (#any-eq? @ids \"a\"))",
    "((args (identifier)+ @ids) (#any-not-eq? @ids \"a\"))",
    "((identifier) @a (#match? @a \"^[ab]$\"))",
    "((identifier) @a (#not-match? @a \"^[ab]$\"))",
    "((args (identifier)+ @ids) (#any-match? @ids \"^a\"))",
    "((identifier) @a (#any-of? @a \"a\" \"f\" \"let\"))",
    "((identifier) @a (#not-any-of? @a \"a\" \"f\"))",
];

fn case_json(lang: &str, q: &str, text: &[u8], extra: Value) -> Value { json!({"lang": lang, "query": q, "text": crate::util::bytes_json(text), "x": extra}) }

fn intersects(n: &crate::xtree::XNode, a: usize, b: usize) -> bool { n.start < b && n.end > a }

fn check_pair(ctx: &Ctx, lang: &str, language: &tree_sitter::Language, qsrc: &str, q: &Query, other: &Query, env: &Env, res: &mut ShardResult) {
    // per pattern: is it rooted with a capture on its outermost node?
    let pat_ok: Vec<bool> = (0..q.pattern_count()).map(|p| q.is_pattern_rooted(p) && root_is_captured(&qsrc[q.start_byte_for_pattern(p)..q.end_byte_for_pattern(p)])).collect();
    let all_rooted_captured = pat_ok.iter().all(|&b| b);
    let has_quantifier = qsrc.contains(")*") || qsrc.contains(")+") || qsrc.contains(")?");
    let wildcard_root_with_child = qsrc.contains("(_ (");
    let mut cur = QueryCursor::new();
    let base_m = env.matches(&mut cur, q);
    let base_c = env.captures(&mut cur, q);
    res.transitions += 2;
    if !base_m.is_empty() { res.nontrivial += 1; }
    res.outcome(base_m.len() as u64);
    let v = |res: &mut ShardResult, fp: &str, msg: String, extra: Value| res.violation(fp, format!("query {:?} on {:?}: {}", qsrc, String::from_utf8_lossy(env.text), msg), case_json(lang, qsrc, env.text, extra));
    // (1) captures vs matches
    {
        let (mut tm, mut tc) = (triples_of_matches(&base_m), triples_of_caps(&base_c));
        // compared as sets: a capture shared by several matches (the root of a pattern whose child matches several nodes) is
        // emitted once, and with quantifiers the early captures of superseded partial matches are emitted as well
        let _ = has_quantifier;
        tm.dedup(); tc.dedup();
        if tm != tc { v(res, "capture-stream-differs-from-match-stream", format!("matches give {:?}, captures give {:?}", tm, tc), json!({})); }
    }
    for w in base_c.windows(2) { if env.xt.nodes[w[0].node].start > env.xt.nodes[w[1].node].start {
        // Known finding: a wildcard root with a child is matched from the child upwards, so a parent shared by two matches is emitted late.
        let fp = if wildcard_root_with_child { "capture-order-wildcard-root-with-child" } else { "captures-out-of-document-order" };
        v(res, fp, format!("capture at byte {} is followed by one at byte {}", env.xt.nodes[w[0].node].start, env.xt.nodes[w[1].node].start), json!({})); break;
    } }
    // (3) reuse
    let again_m = env.matches(&mut cur, q);
    let again_c = env.captures(&mut cur, q);
    let mut fresh = QueryCursor::new();
    let fresh_m = env.matches(&mut fresh, q);
    let mut used = QueryCursor::new();
    used.set_byte_range(1..3);
    let _ = env.captures(&mut used, other);
    used.set_byte_range(0..usize::MAX);
    let used_m = env.matches(&mut used, q);
    let used_c = env.captures(&mut used, q);
    res.transitions += 5;
    // "identical results": the same sequences, not only the same sets
    let seq = |cs: &[CapRec]| -> Vec<(usize, u32, usize)> { cs.iter().map(|c| (c.pattern, c.cap, c.node)).collect() };
    if strip_ids(&again_m) != strip_ids(&base_m) || seq(&again_c) != seq(&base_c) { v(res, "re-exec-differs", format!("second execution on the same cursor differs: captures {:?} vs {:?}", seq(&again_c), seq(&base_c)), json!({})); }
    if strip_ids(&fresh_m) != strip_ids(&base_m) { v(res, "fresh-cursor-differs", "a fresh cursor gives different matches".into(), json!({})); }
    if strip_ids(&used_m) != strip_ids(&base_m) || seq(&used_c) != seq(&base_c) { v(res, "reused-cursor-differs", format!("a cursor previously used with another query and range gives different results: captures {:?} vs {:?}", seq(&used_c), seq(&base_c)), json!({})); }
    // reuse histories with an ABANDONED iteration: take the first k items of one stream, drop the iterator, execute again
    for k in 1..=3usize {
        for first_is_captures in [true, false] {
            let mut c = QueryCursor::new();
            if first_is_captures {
                let mut it = c.captures(q, env.tree.root_node(), env.text);
                for _ in 0..k { if it.next().is_none() { break; } }
            } else {
                let mut it = c.matches(q, env.tree.root_node(), env.text);
                for _ in 0..k { if it.next().is_none() { break; } }
            }
            // (both orders of the two streams right after the abandoned iteration: stale buffered state shows in the first one)
            let (m2, c2) = if k % 2 == 1 { let c2 = env.captures(&mut c, q); let m2 = env.matches(&mut c, q); (m2, c2) } else { let m2 = env.matches(&mut c, q); let c2 = env.captures(&mut c, q); (m2, c2) };
            res.transitions += 3;
            if strip_ids(&m2) != strip_ids(&base_m) { v(res, "re-exec-after-abandoned-iteration-differs", format!("after taking {} {} and dropping the iterator, the matches differ: {:?} vs {:?}", k, if first_is_captures { "captures" } else { "matches" }, strip_ids(&m2), strip_ids(&base_m)), json!({"abandoned_after": k})); break; }
            if seq(&c2) != seq(&base_c) { v(res, "re-exec-after-abandoned-iteration-differs", format!("after taking {} {} and dropping the iterator, the captures differ: {:?} vs {:?}", k, if first_is_captures { "captures" } else { "matches" }, seq(&c2), seq(&base_c)), json!({"abandoned_after": k})); break; }
        }
    }
    // max start depth
    let depth_of_root = |m: &MatchRec| -> Option<u32> { m.caps.iter().map(|c| env.xt.nodes[c.1].depth).min() };

    for d in [0u32, 1, 2] {
        let mut c2 = QueryCursor::new();
        c2.set_max_start_depth(Some(d));
        let got = env.matches(&mut c2, q);
        res.transitions += 1;
        // every returned match is an unrestricted match; with a captured root its depth is bounded
        for g in &got { if !base_m.iter().any(|b| b.pattern == g.pattern && b.caps == g.caps) { v(res, "max-start-depth-invents-match", format!("depth {}: {:?}", d, g), json!({"depth": d})); break; } }
        if all_rooted_captured {
            let want: Vec<_> = base_m.iter().filter(|m| depth_of_root(m).map(|x| x <= d).unwrap_or(false)).cloned().collect();
            if strip_ids(&want) != strip_ids(&got) { v(res, "max-start-depth-filter", format!("depth {}: got {} matches, filtering the unrestricted list by root depth gives {}", d, got.len(), want.len()), json!({"depth": d})); }
        }
    }
    // (4) match limits
    for l in [1u32, 2, 3, 4, 8] {
        let mut c2 = QueryCursor::new();
        c2.set_match_limit(l);
        let m = env.matches(&mut c2, q);
        let ex1 = c2.did_exceed_match_limit();
        let c = env.captures(&mut c2, q);
        let ex2 = c2.did_exceed_match_limit();
        res.transitions += 2;
        if strip_ids(&m) != strip_ids(&base_m) && !ex1 { v(res, "match-limit-drop-not-reported", format!("limit {}: match stream has {} matches instead of {} but did_exceed_match_limit() is false", l, m.len(), base_m.len()), json!({"limit": l, "stream": "matches"})); }
        if triples_of_caps(&c) != triples_of_caps(&base_c) && !ex2 { v(res, "match-limit-drop-not-reported", format!("limit {}: capture stream has {} captures instead of {} but did_exceed_match_limit() is false", l, c.len(), base_c.len()), json!({"limit": l, "stream": "captures"})); }
    }
    // (5) remove_match at every capture position
    for k in 0..base_c.len().min(24) {
        let mut c2 = QueryCursor::new();
        let mut got: Vec<CapRec> = vec![];
        let mut removed_id = None;
        let mut removed_caps: Vec<(u32, usize)> = vec![];
        {
            let mut it = c2.captures(q, env.tree.root_node(), env.text);
            let mut pos = 0usize;
            while let Some((m, ci)) = it.next() {
                let c = m.captures[*ci];
                got.push(CapRec { pattern: m.pattern_index, match_id: m.id(), cap: c.index, node: env.idx(c.node) });
                if pos == k { removed_id = Some(m.id()); removed_caps = m.captures.iter().map(|c| (c.index, env.idx(c.node))).collect(); m.remove(); }
                pos += 1;
                if pos > 20000 { break; }
            }
        }
        res.transitions += 1;
        let rid = removed_id.unwrap();
        let gotv: Vec<(usize, u32, usize)> = got.iter().map(|c| (c.pattern, c.cap, c.node)).collect();
        let basev: Vec<(usize, u32, usize)> = base_c.iter().map(|c| (c.pattern, c.cap, c.node)).collect();
        // the stream up to and including position k is untouched
        if gotv.len() <= k || gotv[..=k] != basev[..=k] { v(res, "remove-match-changes-earlier-captures", format!("removing at capture #{}: prefix differs", k), json!({"k": k})); break; }
        // nothing of the removed match is delivered afterwards
        // (match ids are shared by matches that were split from one state; the removed match is identified by id + its captures)
        if got[k + 1..].iter().any(|c| c.match_id == rid && removed_caps.contains(&(c.cap, c.node))) { v(res, "removed-match-still-delivers-captures", format!("after removing match {} at capture #{} the stream still contains its captures: {:?}", rid, k, &got[k + 1..]), json!({"k": k})); break; }
        // every capture of another match that the unmodified stream delivers after k is still delivered, and nothing new appears
        let mut rest: Vec<(usize, u32, usize)> = gotv[k + 1..].to_vec();
        let mut ok = true;
        for (i, c) in base_c.iter().enumerate().skip(k + 1) {
            if c.match_id == rid { continue; }
            match rest.iter().position(|x| *x == basev[i]) { Some(p) => { rest.remove(p); } None => { ok = false; break; } }
        }
        if !ok { v(res, "remove-match-changes-other-captures", format!("removing the match of capture #{} leaves {:?}; the unmodified stream is {:?}", k, gotv, basev), json!({"k": k})); break; }
        let origrest: Vec<(usize, u32, usize)> = basev[k + 1..].to_vec();
        if rest.iter().any(|x| !origrest.contains(x)) { v(res, "remove-match-invents-captures", format!("removing at #{}: extra captures {:?}", k, rest), json!({"k": k})); break; }
    }
    // (2) ranges
    let len = env.text.len();
    let lt = LineTable::new(env.text);
    let step = if len <= 24 { 1 } else { (len / 12).max(2) };
    let rooted = all_rooted_captured;
    let mut a = 0;
    while a < len {
        let mut b = a + 1;
        while b <= len {
            for points in [false, true] {
                let mut c2 = QueryCursor::new();
                if points { c2.set_point_range(lt.point(a)..lt.point(b)); } else { c2.set_byte_range(a..b); }
                let got = env.matches(&mut c2, q);
                res.transitions += 1;
                let fpx = if points { "point" } else { "byte" };
                for g in &got { if !base_m.iter().any(|m| m.pattern == g.pattern && m.caps == g.caps) { v(res, "range-invents-match", format!("{} range {}..{}: {:?} is not an unrestricted match", fpx, a, b, g), json!({"range": [a, b], "points": points})); break; } }
                if rooted {
                    let want: Vec<_> = base_m.iter().filter(|m| { let r = root_node_of(m, env.xt); let n = &env.xt.nodes[r]; n.end > n.start && intersects(n, a, b) }).cloned().collect();
                    let got_nz: Vec<_> = got.iter().filter(|m| { let n = &env.xt.nodes[root_node_of(m, env.xt)]; n.end > n.start }).cloned().collect();
                    if strip_ids(&want) != strip_ids(&got_nz) { v(res, "range-intersection-semantics", format!("{} range {}..{}: got {:?}, but the unrestricted matches whose root intersects are {:?}", fpx, a, b, strip_ids(&got_nz), strip_ids(&want)), json!({"range": [a, b], "points": points})); }
                } else {
                    // sandwich: every unrestricted match all of whose captured nodes intersect the range must be present
                    for m in &base_m { if !m.caps.is_empty() && m.caps.iter().all(|c| { let n = &env.xt.nodes[c.1]; n.end > n.start && intersects(n, a, b) }) && !got.iter().any(|g| g.pattern == m.pattern && g.caps == m.caps) {
                        v(res, "range-drops-intersecting-match", format!("{} range {}..{}: match {:?} lies entirely in the range but was not returned", fpx, a, b, m), json!({"range": [a, b], "points": points})); break;
                    } }
                }
                // the capture stream under the same range: exactly the captures of the range-restricted matches whose node
                // intersects the range (zero-width nodes left out on both sides)
                {
                    let mut c4 = QueryCursor::new();
                    if points { c4.set_point_range(lt.point(a)..lt.point(b)); } else { c4.set_byte_range(a..b); }
                    let gotcaps = env.captures(&mut c4, q);
                    res.transitions += 1;
                    let nz = |i: usize| { let n = &env.xt.nodes[i]; n.end > n.start };
                    let mut want_t: Vec<(usize, u32, usize)> = got.iter().flat_map(|m| m.caps.iter().map(move |c| (m.pattern, c.0, c.1))).filter(|t| nz(t.2) && intersects(&env.xt.nodes[t.2], a, b)).collect();
                    want_t.sort();
                    want_t.dedup();
                    let mut got_t: Vec<(usize, u32, usize)> = gotcaps.iter().map(|c| (c.pattern, c.cap, c.node)).filter(|t| nz(t.2)).collect();
                    got_t.sort();
                    // (compared as SETS of triples: when the walk ends at the range end, quantified patterns can hand out the
                    // captures of a shorter and of a longer repetition count, which the match stream folds into one match)
                    got_t.dedup();
                    if want_t != got_t { v(res, "range-captures-differ-from-range-matches", format!("{} range {}..{}: capture stream {:?}, in-range captures of the matches under the same range {:?}", fpx, a, b, got_t, want_t), json!({"range": [a, b], "points": points})); }
                }
                // containing range
                let mut c3 = QueryCursor::new();
                if points { c3.set_containing_point_range(lt.point(a)..lt.point(b)); } else { c3.set_containing_byte_range(a..b); }
                let gotc = env.matches(&mut c3, q);
                res.transitions += 1;
                let on_edge = |m: &MatchRec| m.caps.iter().any(|c| { let n = &env.xt.nodes[c.1]; n.start == n.end && (n.start == a || n.start == b) });
                let wantc: Vec<_> = base_m.iter().filter(|m| !on_edge(m) && m.caps.iter().all(|c| { let n = &env.xt.nodes[c.1]; n.start >= a && n.end <= b })).cloned().collect();
                let gotc_cmp: Vec<_> = gotc.iter().filter(|m| !on_edge(m)).cloned().collect();
                if rooted && strip_ids(&wantc) != strip_ids(&gotc_cmp) { v(res, "containing-range-semantics", format!("{} containing range {}..{}: got {:?}, matches fully inside are {:?}", fpx, a, b, strip_ids(&gotc), strip_ids(&wantc)), json!({"range": [a, b], "points": points})); }
                for g in &gotc { if g.caps.iter().any(|c| { let n = &env.xt.nodes[c.1]; n.start < a || n.end > b }) { v(res, if wildcard_root_with_child { "containing-range-wildcard-root-parent-outside" } else { "containing-range-returns-outside-capture" }, format!("{} containing range {}..{}: {:?}", fpx, a, b, g), json!({"range": [a, b], "points": points})); break; } }
            }
            b += step;
        }
        a += step;
        if res.too_many() { return; }
    }
    let _ = (ctx, language);
}

fn root_is_captured(q: &str) -> bool {
    // single pattern whose outermost node carries a capture: "( ... ) @name" at top level
    let t = q.trim();
    t.starts_with('(') && !t.starts_with("((") && t.rfind(')').map(|p| t[p + 1..].trim_start().starts_with('@')).unwrap_or(false)
}
fn root_node_of(m: &MatchRec, xt: &XTree) -> usize { m.caps.iter().map(|c| c.1).min_by_key(|&i| (xt.nodes[i].depth, i)).unwrap() }

// ---- (6) predicates -----------------------------------------------------------------------------
#[derive(Debug)]
enum Pred { EqStr(String, String, bool, bool), EqCap(String, String, bool, bool), Match(String, String, bool, bool), AnyOf(String, Vec<String>, bool) }

fn parse_pred(src: &str) -> (String, Pred) {
    // our own reading of the predicate, from the test source text: "(<pattern> (#name @cap args...))"
    let p = src.rfind("(#").unwrap();
    let body = &src[p + 2..src.len() - 2];
    let pattern = format!("{})", src[..p].trim_end());
    let mut parts: Vec<String> = vec![];
    let mut cur = String::new();
    let mut inq = false;
    for ch in body.chars() { match ch { '"' => { inq = !inq; if !inq { parts.push(format!("\"{}", cur)); cur.clear(); } } ' ' if !inq => { if !cur.is_empty() { parts.push(cur.clone()); cur.clear(); } } c => cur.push(c) } }
    if !cur.is_empty() { parts.push(cur); }
    let name = parts[0].trim_end_matches('?').to_string();
    let cap = parts[1].trim_start_matches('@').to_string();
    let arg = |i: usize| parts[i].trim_start_matches('"').to_string();
    let any = name.starts_with("any-") && !name.contains("of");
    let neg = name.contains("not-");
    let pred = if name.ends_with("any-of") { Pred::AnyOf(cap, (2..parts.len()).map(arg).collect(), !neg) }
        else if name.ends_with("match") { Pred::Match(cap, arg(2), !neg, !any) }
        else if parts[2].starts_with('@') { Pred::EqCap(cap, parts[2].trim_start_matches('@').to_string(), !neg, !any) }
        else { Pred::EqStr(cap, arg(2), !neg, !any) };
    (pattern, pred)
}

fn eval_pred(p: &Pred, q: &Query, m: &MatchRec, env: &Env) -> bool {
    let texts = |cap: &str| -> Vec<&[u8]> { let idx = q.capture_index_for_name(cap).unwrap(); m.caps.iter().filter(|c| c.0 == idx).map(|c| { let n = &env.xt.nodes[c.1]; &env.text[n.start..n.end] }).collect() };
    let quant = |vals: Vec<bool>, all: bool| if all { vals.iter().all(|&b| b) } else { vals.iter().any(|&b| b) };
    match p {
        Pred::EqStr(c, s, positive, all) => quant(texts(c).iter().map(|t| (*t == s.as_bytes()) == *positive).collect(), *all),
        Pred::EqCap(a, b, positive, all) => { let (ta, tb) = (texts(a), texts(b)); if ta.len() != tb.len() { return false; } quant(ta.iter().zip(tb.iter()).map(|(x, y)| (x == y) == *positive).collect(), *all) }
        Pred::Match(c, re, positive, all) => { let r = Regex::new(re).unwrap(); quant(texts(c).iter().map(|t| r.is_match(t) == *positive).collect(), *all) }
        Pred::AnyOf(c, vals, positive) => texts(c).iter().all(|t| vals.iter().any(|v| v.as_bytes() == *t) == *positive),
    }
}

fn check_predicates(lang: &str, language: &tree_sitter::Language, env: &Env, res: &mut ShardResult) {
    for src in PREDICATES {
        let (raw_src, pred) = parse_pred(src);
        let (Ok(q), Ok(raw)) = (Query::new(language, src), Query::new(language, &raw_src)) else { res.violation("ENGINE-predicate-query-rejected", format!("{} / {}", src, raw_src), json!({"query": src})); continue };
        let mut cur = QueryCursor::new();
        let raw_m = env.matches(&mut cur, &raw);
        let want: Vec<_> = raw_m.iter().filter(|m| eval_pred(&pred, &raw, m, env)).cloned().collect();
        let got = env.matches(&mut cur, &q);
        res.transitions += 2;
        if !raw_m.is_empty() { res.nontrivial += 1; }
        if strip_ids(&want) != strip_ids(&got) {
            res.violation(&format!("predicate-{}", src[src.rfind("(#").unwrap() + 2..].split('?').next().unwrap_or("x")), format!("query {:?} on {:?}: iterator returned {:?}; evaluating the predicate on the raw matches gives {:?}", src, String::from_utf8_lossy(env.text), strip_ids(&got), strip_ids(&want)), case_json(lang, src, env.text, json!({})));
        }
        // chunked text provider must give the same result
        let text = env.text;
        let mut got2 = vec![];
        {
            let mut c2 = QueryCursor::new();
            let mut it = c2.matches(&q, env.tree.root_node(), |n: Node| { let r = n.byte_range(); let t = &text[r]; t.chunks(1).collect::<Vec<&[u8]>>().into_iter() });
            while let Some(m) = it.next() { got2.push((m.pattern_index, m.captures.iter().map(|c| (c.index, env.idx(c.node))).collect::<Vec<_>>())); }
        }
        res.transitions += 1;
        if got2 != strip_ids(&got) { res.violation("chunked-text-provider-differs", format!("query {:?} on {:?}: 1-byte-chunk provider gives {:?}, contiguous gives {:?}", src, String::from_utf8_lossy(text), got2, strip_ids(&got)), case_json(lang, src, env.text, json!({}))); }
        // captures iterator filtered the same way
        let mut cc = QueryCursor::new();
        let got_c = env.captures(&mut cc, &q);
        if triples_of_caps(&got_c) != triples_of_matches(&got) { res.violation("predicate-captures-differ-from-matches", format!("query {:?} on {:?}", src, String::from_utf8_lossy(text)), case_json(lang, src, env.text, json!({}))); }
    }
}

// ---- nested documents: many finished matches held back by an enclosing unfinished one --------------------------------
/// Queries with several captures per match and a text predicate on the first one, over EVERY nesting structure of up to N
/// arrays whose first element is 1 or 2 (jsonish). An outer array's match stays unfinished until its closing bracket, so
/// the finished matches of all inner arrays queue up behind it; the capture iterator then hands them out in document order,
/// and the Rust iterator removes the matches whose predicate fails after their first capture was handed out.
const NESTED_QUERIES: [&str; 6] = [
    // sibling captures: every pair / triple of numbers of an array is a match, and all of them stay queued until the array ends
    "(array (number) @name (number) @end (#not-eq? @name \"1\"))",
    "(array (number) @first (number) @name (number) @end (#not-eq? @name \"1\"))",
    "(array . (number) @name \"]\" @end (#not-eq? @name \"1\"))",
    "(array . (number) @name \"]\" @end (#eq? @name \"1\"))",
    "(array . (number) @name \"]\" @end (#not-eq? @name \"1\"))\n(number) @n",
    "(array \"[\" @open . (number) @name (array)* @subs \"]\" @end (#not-eq? @name \"2\"))",
];

/// all ordered forests of `n` nodes as Dyck words ('(' = open a node, ')' = close it)
fn forests(n: usize) -> Vec<Vec<bool>> {
    fn rec(open: usize, close: usize, cur: &mut Vec<bool>, out: &mut Vec<Vec<bool>>) {
        if open == 0 && close == 0 { out.push(cur.clone()); return; }
        if open > 0 { cur.push(true); rec(open - 1, close + 1, cur, out); cur.pop(); }
        if close > 0 { cur.push(false); rec(open, close - 1, cur, out); cur.pop(); }
    }
    let mut out = vec![];
    rec(n, 0, &mut vec![], &mut out);
    out
}

fn nested_doc(shape: &[bool], labels: u32) -> Vec<u8> {
    // one root array around the forest; node k (pre-order, root = 0) starts with the number 1 or 2 by bit k of `labels`
    let mut s = Vec::new();
    let mut k = 0u32;
    let mut open_node = |s: &mut Vec<u8>, k: &mut u32| { if s.last().map_or(false, |&c| c != b'[') { s.push(b','); } s.push(b'['); s.push(if labels & (1 << *k) != 0 { b'2' } else { b'1' }); *k += 1; };
    open_node(&mut s, &mut k);
    for &o in shape { if o { open_node(&mut s, &mut k); } else { s.push(b']'); } }
    s.push(b']');
    s
}

fn check_nested(ctx: &Ctx, res: &mut ShardResult, idx: &mut usize) {
    let z = crate::zoo::by_name("jsonish").unwrap();
    let info = build_info(&z);
    let queries: Vec<(String, Query, Query, Pred)> = NESTED_QUERIES.iter().map(|src| {
        let first = src.lines().next().unwrap();
        let (raw_first, pred) = parse_pred(first);
        let raw_src = src.replacen(first, &raw_first, 1);
        (src.to_string(), Query::new(&info.language, src).expect("nested query"), Query::new(&info.language, &raw_src).expect("nested raw query"), pred)
    }).collect();
    let max_nodes = if ctx.mini() { 5 } else if ctx.quick() { 8 } else { 10 };
    let mut parser = Parser::new();
    parser.set_language(&info.language).unwrap();
    // flat arrays of k numbers (as the last "shape" of every size): [l1,l2,...,lk]
    let max_flat = if ctx.mini() { 4 } else if ctx.quick() { 7 } else { 9 };
    for n in 1..=max_nodes.max(max_flat) {
        let mut shapes: Vec<Option<Vec<bool>>> = if n <= max_nodes { forests(n - 1).into_iter().map(Some).collect() } else { vec![] };
        if n >= 2 && n <= max_flat { shapes.push(None); }
        for shape in shapes {
            *idx += 1;
            if !ctx.mine(*idx) { continue; }
            for labels in 0..(1u32 << n) {
                let d = match &shape {
                    Some(sh) => nested_doc(sh, labels),
                    None => { let mut s = vec![b'[']; for k in 0..n { if k > 0 { s.push(b','); } s.push(if labels & (1 << k) != 0 { b'2' } else { b'1' }); } s.push(b']'); s }
                };
                let tree = parser.parse(&d, None).unwrap();
                let xt = XTree::build(&tree);
                if xt.root_has_error() { res.violation("ENGINE-nested-document-has-error", String::from_utf8_lossy(&d).to_string(), json!({})); return; }
                let env = Env::new(&tree, &d, &xt);
                res.states += 1;
                for (src, q, raw, pred) in &queries {
                    crate::case!("{}", case_json("jsonish", src, &d, json!({"part": "nested"})));
                    res.transitions += 1;
                    let mut cur = QueryCursor::new();
                    let raw_m = env.matches(&mut cur, raw);
                    // the predicate belongs to pattern 0; matches of other patterns pass
                    let want: Vec<MatchRec> = raw_m.iter().filter(|m| m.pattern != 0 || eval_pred(pred, raw, m, &env)).cloned().collect();
                    let got_c = env.captures(&mut cur, q);
                    if want.len() < raw_m.len() && want.len() > 1 { res.nontrivial += 1; }
                    let starts: Vec<usize> = got_c.iter().map(|c| xt.nodes[c.node].start).collect();
                    if starts.windows(2).any(|w| w[0] > w[1]) {
                        res.violation("captures-out-of-document-order", format!("query {:?} on {:?}: capture start bytes {:?}", src, String::from_utf8_lossy(&d), starts), case_json("jsonish", src, &d, json!({"part": "nested"})));
                    } else if triples_of_caps(&got_c) != triples_of_matches(&want) {
                        res.violation("predicate-captures-differ-from-matches", format!("query {:?} on {:?}: captures {:?}, matches that satisfy the predicate {:?}", src, String::from_utf8_lossy(&d), triples_of_caps(&got_c), triples_of_matches(&want)), case_json("jsonish", src, &d, json!({"part": "nested"})));
                    }
                    res.outcome(crate::util::fnv_mix(got_c.len() as u64, want.len() as u64));
                }
                if res.too_many() { return; }
            }
            if ctx.out_of_time() { res.caps.push("wall-clock budget reached (nested documents)".into()); return; }
        }
    }
}

// ---- the heap of finished matches, driven directly (hook H4) ----------------------------------------------------------
// The capture iterator keeps finished matches in a binary min-heap keyed by (start byte of the next unconsumed capture,
// pattern, insertion order). Hook H4 exposes the operations next_capture and remove_match perform on it, on fabricated
// captures. Every sequence below runs on the real functions and is compared step by step with a sorted list.
extern "C" {
    fn ts_verif_fsheap_new() -> *mut tree_sitter::ffi::TSQueryCursor;
    fn ts_verif_fsheap_delete(c: *mut tree_sitter::ffi::TSQueryCursor);
    fn ts_verif_fsheap_push(c: *mut tree_sitter::ffi::TSQueryCursor, id: u32, pattern: u16, start_bytes: *const u32, count: u32);
    fn ts_verif_fsheap_take(c: *mut tree_sitter::ffi::TSQueryCursor, id: *mut u32, capture_index: *mut u32) -> bool;
    fn ts_verif_fsheap_first_disorder(c: *const tree_sitter::ffi::TSQueryCursor) -> u32;
    fn ts_verif_fsheap_ids(c: *const tree_sitter::ffi::TSQueryCursor, ids: *mut u32, cap: u32) -> u32;
}

#[derive(Clone, Copy, Debug, PartialEq)]
enum HeapOp { Take, Remove(u32), Late(u32) }

struct RefState { id: u32, pattern: u16, order: u32, caps: Vec<u32>, consumed: usize }

/// one execution: `init` states pushed, then `ops`, then takes until empty; Err = (fingerprint, message)
fn run_heap(init: &[(u16, Vec<u32>)], ops: &[HeapOp]) -> Result<u64, (String, String)> {
    unsafe {
        let c = ts_verif_fsheap_new();
        let mut model: Vec<RefState> = vec![];
        let mut next_order = 0u32;
        let mut steps = 0u64;
        let mut result = Ok(0);
        let push = |model: &mut Vec<RefState>, next_order: &mut u32, id: u32, pattern: u16, caps: &[u32]| {
            ts_verif_fsheap_push(c, id, pattern, caps.as_ptr(), caps.len() as u32);
            model.push(RefState { id, pattern, order: *next_order, caps: caps.to_vec(), consumed: 0 });
            *next_order += 1;
        };
        for (i, (pat, caps)) in init.iter().enumerate() { push(&mut model, &mut next_order, i as u32, *pat, caps); }
        let mut check_take = |model: &mut Vec<RefState>| -> Result<bool, (String, String)> {
            let (mut id, mut ci) = (0u32, 0u32);
            let got = ts_verif_fsheap_take(c, &mut id, &mut ci);
            let dis = ts_verif_fsheap_first_disorder(c);
            if dis != 0 { return Err(("finished-heap-invariant".into(), format!("after a take element {} precedes its parent", dis))); }
            let want = model.iter().enumerate().filter(|(_, s)| s.consumed < s.caps.len()).min_by_key(|(_, s)| (s.caps[s.consumed], s.pattern, s.order)).map(|(k, _)| k);
            match (got, want) {
                (false, None) => Ok(false),
                (true, Some(k)) => {
                    if model[k].id != id || model[k].consumed as u32 != ci { return Err(("finished-heap-order".into(), format!("take returned capture {} of state {}, the earliest is capture {} of state {} (start byte {})", ci, id, model[k].consumed, model[k].id, model[k].caps[model[k].consumed]))); }
                    model[k].consumed += 1;
                    Ok(true)
                }
                (g, w) => Err(("finished-heap-order".into(), format!("take returned {} but the model has {:?}", g, w.map(|k| model[k].id)))),
            }
        };
        let mut late_id = 1000u32;
        'run: {
            for op in ops {
                steps += 1;
                match *op {
                    HeapOp::Take => { if let Err(e) = check_take(&mut model) { result = Err(e); break 'run; } }
                    HeapOp::Remove(id) => {
                        if !model.iter().any(|s| s.id == id) { continue; }
                        tree_sitter::ffi::ts_query_cursor_remove_match(c, id);
                        model.retain(|s| s.id != id);
                        let dis = ts_verif_fsheap_first_disorder(c);
                        if dis != 0 { result = Err(("finished-heap-invariant".into(), format!("after removing state {} element {} precedes its parent", id, dis))); break 'run; }
                        let mut ids = [0u32; 64];
                        let n = ts_verif_fsheap_ids(c, ids.as_mut_ptr(), 64) as usize;
                        if ids[..n.min(64)].contains(&id) { result = Err(("finished-heap-remove".into(), format!("state {} still queued after remove_match", id))); break 'run; }
                    }
                    HeapOp::Late(key) => { push(&mut model, &mut next_order, late_id, 0, &[key, key + 500]); late_id += 1; }
                }
            }
            loop {
                steps += 1;
                match check_take(&mut model) { Ok(true) => {}, Ok(false) => break, Err(e) => { result = Err(e); break 'run; } }
                if steps > 10_000 { result = Err(("finished-heap-does-not-drain".into(), "more than 10000 takes".into())); break 'run; }
            }
        }
        ts_verif_fsheap_delete(c);
        result.map(|_: u64| steps)
    }
}

fn permutations(n: usize) -> Vec<Vec<usize>> {
    fn rec(cur: &mut Vec<usize>, used: &mut Vec<bool>, out: &mut Vec<Vec<usize>>) {
        if cur.len() == used.len() { out.push(cur.clone()); return; }
        for i in 0..used.len() { if !used[i] { used[i] = true; cur.push(i); rec(cur, used, out); cur.pop(); used[i] = false; } }
    }
    let mut out = vec![];
    rec(&mut vec![], &mut vec![false; n], &mut out);
    out
}

fn heap_init(perm: &[usize], variant: usize) -> Vec<(u16, Vec<u32>)> {
    // variants: distinct first keys / ties (pairs of equal keys, told apart by pattern and insertion order) x
    // every state has two captures / one capture / alternating
    let ties = variant % 2 == 1;
    let shape = variant / 2;
    perm.iter().enumerate().map(|(i, &p)| {
        let k = if ties { 10 * (p as u32 / 2 + 1) } else { 10 * (p as u32 + 1) };
        let two = match shape { 0 => true, 1 => false, _ => i % 2 == 0 };
        let pattern = if ties { (p % 2) as u16 } else { 0 };
        (pattern, if two { vec![k, 1000 + 7 * ((p as u32 * 3) % 5)] } else { vec![k] })
    }).collect()
}

fn check_heap(ctx: &Ctx, res: &mut ShardResult, idx: &mut usize) {
    let (max_n, max_ops) = if ctx.mini() { (4, 2) } else if ctx.quick() { (5, 4) } else { (7, 4) };
    for n in 1..=max_n {
        for perm in permutations(n) {
            *idx += 1;
            if !ctx.mine(*idx) { continue; }
            for variant in 0..6usize {
                let init = heap_init(&perm, variant);
                let mut alphabet: Vec<HeapOp> = vec![HeapOp::Take];
                for id in 0..n as u32 { alphabet.push(HeapOp::Remove(id)); }
                alphabet.push(HeapOp::Late(1));
                alphabet.push(HeapOp::Late(10 * (n as u32 / 2) + 5));
                res.states += 1;
                for len in 0..=max_ops {
                    let mut stop = false;
                    crate::util::for_each_seq(alphabet.len(), len, |ix| {
                        if stop { return; }
                        let ops: Vec<HeapOp> = ix.iter().map(|&i| alphabet[i]).collect();
                        // at most two late pushes per sequence
                        if ops.iter().filter(|o| matches!(o, HeapOp::Late(_))).count() > 2 { return; }
                        res.transitions += 1;
                        if ops.iter().any(|o| !matches!(o, HeapOp::Take)) { res.nontrivial += 1; }
                        match run_heap(&init, &ops) {
                            Ok(steps) => res.outcome(steps),
                            Err((fp, msg)) => {
                                res.violation(&fp, format!("states {:?}, operations {:?}: {}", init, ops, msg), json!({"part": "heap", "perm": perm, "variant": variant, "ops": format!("{:?}", ops)}));
                                if res.too_many() { stop = true; }
                            }
                        }
                    });
                    if stop { return; }
                }
            }
            if ctx.out_of_time() { res.caps.push("wall-clock budget reached (finished-state heap)".into()); return; }
        }
    }
}

pub fn worker(ctx: &Ctx, res: &mut ShardResult) {
    let mut idx = 0usize;
    check_heap(ctx, res, &mut idx);
    if res.too_many() { return; }
    check_nested(ctx, res, &mut idx);
    if res.too_many() { return; }
    for (lname, pats) in [("stmts", &PATTERNS[..]), ("jsonish", &JSON_PATTERNS[..])] {
        let z = crate::zoo::by_name(lname).unwrap();
        let info = build_info(&z);
        let mut sources: Vec<String> = pats.iter().map(|s| s.to_string()).collect();
        for a in pats.iter() { for b in pats.iter() { if a != b { sources.push(format!("{}\n{}", a, b)); } } }
        let queries: Vec<(String, Query)> = sources.into_iter().filter_map(|s| Query::new(&info.language, &s).ok().map(|q| (s, q))).collect();
        if queries.len() < pats.len() { res.violation("ENGINE-base-pattern-rejected", format!("{} of the base patterns for {} were rejected", pats.len() as i64 - queries.len() as i64, lname), json!({})); }
        let other = Query::new(&info.language, if lname == "stmts" { "(number) @n (identifier) @i" } else { "(number) @n" }).unwrap();
        let mut parser = Parser::new();
        parser.set_language(&info.language).unwrap();
        let k = if ctx.mini() { 0 } else if ctx.quick() { 2 } else { 3 };
        let docs: Vec<Vec<u8>> = crate::docs::docs(&z, k).into_iter().filter(|d| d.len() <= 60).collect();
        for d in &docs {
            let tree = parser.parse(d, None).unwrap();
            let xt = XTree::build(&tree);
            let env = Env::new(&tree, d, &xt);
            for (qi, (src, q)) in queries.iter().enumerate() {
                idx += 1;
                if !ctx.mine(idx) { continue; }
                if ctx.mini() && qi >= pats.len() && (qi + d.len()) % 5 != 0 { continue; }
                crate::case!("{}", case_json(lname, src, d, json!({})));
                res.states += 1;
                check_pair(ctx, lname, &info.language, src, q, &other, &env, res);
                if let Some(m) = NODE_MISMATCH.with(|m| m.borrow_mut().take()) { res.violation("captured-node-differs-from-tree-node", format!("query {:?} on {:?}: {}", src, String::from_utf8_lossy(d), m), case_json(lname, src, d, json!({}))); }
                if res.too_many() { return; }
            }
            if lname == "stmts" { idx += 1; if ctx.mine(idx) { crate::case!("{}", case_json(lname, "predicates", d, json!({}))); check_predicates(lname, &info.language, &env, res); } }
            if res.samples.len() < 2 && d.len() > 8 { res.sample(case_json(lname, &queries[1].0, d, json!({"range": [1, 5]}))); }
            if ctx.out_of_time() { res.caps.push("wall-clock budget reached".into()); return; }
        }
    }
}

/// Re-run every cursor configuration of one recorded (language, query, text) outside the explorer.
pub fn replay(case: &Value) -> Vec<String> {
    let case = if case.get("kind").and_then(|k| k.as_str()) == Some("crash") { &case["case"] } else { case };
    if case["part"].as_str() == Some("heap") {
        let perm: Vec<usize> = case["perm"].as_array().map(|a| a.iter().filter_map(|v| v.as_u64().map(|x| x as usize)).collect()).unwrap_or_default();
        let variant = case["variant"].as_u64().unwrap_or(0) as usize;
        let mut ops = vec![];
        for part in case["ops"].as_str().unwrap_or("").trim_matches(|c| c == '[' || c == ']').split(", ") {
            let arg: u32 = part.chars().filter(|c| c.is_ascii_digit()).collect::<String>().parse().unwrap_or(0);
            if part.starts_with("Take") { ops.push(HeapOp::Take); } else if part.starts_with("Remove") { ops.push(HeapOp::Remove(arg)); } else if part.starts_with("Late") { ops.push(HeapOp::Late(arg)); }
        }
        let init = heap_init(&perm, variant);
        println!("states pushed (pattern, capture start bytes): {:?}\noperations: {:?}, then takes until empty", init, ops);
        return match run_heap(&init, &ops) { Ok(steps) => { println!("{} steps, every take returned the earliest capture", steps); vec![] } Err((fp, m)) => vec![format!("{}: {}", fp, m)] };
    }
    let (Some(lname), Some(qsrc)) = (case["lang"].as_str(), case["query"].as_str()) else { return vec![format!("not a C11 case: {}", case)] };
    let Some(z) = crate::zoo::by_name(lname) else { return vec![format!("unknown language {}", lname)] };
    let info = build_info(&z);
    let text = crate::util::bytes_from_json(&case["text"]);
    let mut parser = Parser::new();
    parser.set_language(&info.language).unwrap();
    let tree = parser.parse(&text, None).unwrap();
    println!("tree: {}", tree.root_node().to_sexp());
    let xt = XTree::build(&tree);
    let env = Env::new(&tree, &text, &xt);
    let mut res = ShardResult::new();
    res.max_violations = 20;
    let ctx = Ctx { id: "C11".into(), tier: "thorough".into(), seed: 0, shard: 0, nshards: 1, deadline: std::time::Instant::now() + std::time::Duration::from_secs(600) };
    if case["x"]["part"].as_str() == Some("nested") {
        let first = qsrc.lines().next().unwrap();
        let (raw_first, pred) = parse_pred(first);
        let raw_src = qsrc.replacen(first, &raw_first, 1);
        let (Ok(q), Ok(raw)) = (Query::new(&info.language, qsrc), Query::new(&info.language, &raw_src)) else { return vec!["query rejected".into()] };
        let mut cur = QueryCursor::new();
        let raw_m = env.matches(&mut cur, &raw);
        let want: Vec<MatchRec> = raw_m.iter().filter(|m| m.pattern != 0 || eval_pred(&pred, &raw, m, &env)).cloned().collect();
        let got_c = env.captures(&mut cur, &q);
        let starts: Vec<usize> = got_c.iter().map(|c| xt.nodes[c.node].start).collect();
        println!("captures (pattern, capture, start byte): {:?}", got_c.iter().map(|c| (c.pattern, c.cap, xt.nodes[c.node].start)).collect::<Vec<_>>());
        println!("matches that satisfy the predicate: {:?}", strip_ids(&want));
        let mut out = vec![];
        if starts.windows(2).any(|w| w[0] > w[1]) { out.push(format!("captures-out-of-document-order: start bytes {:?}", starts)); }
        if triples_of_caps(&got_c) != triples_of_matches(&want) { out.push("predicate-captures-differ-from-matches".to_string()); }
        return out;
    }
    if qsrc == "predicates" || qsrc.contains("(#") {
        check_predicates(lname, &info.language, &env, &mut res);
        if qsrc != "predicates" { res.violations.retain(|v| v.what.contains(qsrc)); }
    } else {
        let q = match Query::new(&info.language, qsrc) { Ok(q) => q, Err(e) => return vec![format!("query rejected: {:?}", e)] };
        let other = Query::new(&info.language, if lname == "stmts" { "(number) @n (identifier) @i" } else { "(number) @n" }).unwrap();
        let mut cur = QueryCursor::new();
        for m in env.matches(&mut cur, &q) { println!("match: {:?}", m); }
        check_pair(&ctx, lname, &info.language, qsrc, &q, &other, &env, &mut res);
    }
    res.violations.iter().map(|v| format!("{}: {}", v.fingerprint, v.what)).collect()
}
