//! C07: no memory-unsafe behaviour, assertion failure or leak — the explorers re-run under ASan+UBSan with a counting
//! allocator, plus adversarial API histories and the query-source error-path box.
use crate::checks::c_hist::build_info;
use crate::run::{CheckMeta, Ctx, ShardResult};
use crate::text::{self, Edit};
use crate::wf::LangInfo;
use crate::xtree::XTree;
use crate::alloc;
use serde_json::{json, Value};
use std::ops::ControlFlow;
use streaming_iterator::StreamingIterator;
use tree_sitter::{InputEdit, ParseOptions, Parser, Point, Query, QueryCursor, Range, Tree};

pub fn meta(tier: &str) -> CheckMeta {
    let q = tier == "quick";
    CheckMeta {
        id: "C07", level: "model_checking",
        rule: "E-hist under sanitizers: this check runs in the `asan` flavour (C runtime, generated parsers and scanners compiled with -fsanitize=address,undefined; ts_assert live) with a counting allocator installed through ts_set_allocator. (1) the explorers of C01 C02 C04 C05 C06 C08 C09 C10 C11 C13 are re-run unchanged on fixed smaller boxes (quick: their `mini` boxes; thorough: their full quick boxes), including cancelled-and-abandoned parses; after each, every handle is dropped and the number of live allocations must return to the baseline; (2) every API call history up to depth d over an 18-operation alphabet (parse, re-parse, extreme edits, copy, delete, valid/invalid ranges, cancel, resume, reset, drop parser, other language, query new/matches/captures/remove/limit, cursor walk, logger) on 3 documents and 2 languages, each replayed from scratch with the allocation balance checked at the end; (3) Query::new on every string of <=n atoms over 14 query-syntax atoms, executing the accepted ones. Any sanitizer report, assertion failure, crash, foreign/double free or leak is a violation. Non-trivial = history containing a cancellation, an extreme edit or a rejected call / query source that is rejected.",
        assumptions: vec!["Rust std and the engine itself are not instrumented; only the C runtime, generated parsers and scanners are".into(), "uninitialised reads are covered by the separate valgrind memcheck pass of the thorough tier (plain flavour, mini box, evidence file C07-valgrind.json), not by the sanitizer run".into()],
        exhaustive: true,
        bounds: json!({"sub_explorer_tier": if q || tier == "mini" { "mini" } else { "quick" }, "api_history_depth": if tier == "mini" { 2 } else if q { 3 } else { 4 }, "query_atoms": if tier == "mini" { 3 } else if q { 4 } else { 5 }, "valgrind_memcheck": std::env::var("VF_VALGRIND").is_ok()}),
    }
}

const DOCS: [&str; 3] = ["let a = f(1, 2) + 3;\nif a { b; } else { c; }\n", "{ a; # c\n b; /* x */ }", "let = ; ) (\u{e9}"];
const QUERIES: [&str; 4] = ["(identifier) @id", "(let_stmt name: (_) @n value: (_) @v)", "(block (_)* @s)", "(call fn: (identifier) @f (#eq? @f \"f\"))"];

#[derive(Clone, Copy, Debug, PartialEq)]
enum AOp { Parse(usize), Reparse, EditExtreme(usize), Copy, Delete, RangesValid, RangesInvalid, Cancel(usize), Resume, Reset, DropParser, OtherLanguage, QueryNew(usize), Matches, Captures, RemoveMatch, Limit1, Walk, Logger }

fn alphabet() -> Vec<AOp> {
    vec![AOp::Parse(0), AOp::Parse(2), AOp::Reparse, AOp::EditExtreme(0), AOp::EditExtreme(1), AOp::Copy, AOp::Delete, AOp::RangesValid, AOp::RangesInvalid, AOp::Cancel(0), AOp::Resume, AOp::Reset,
         AOp::DropParser, AOp::OtherLanguage, AOp::QueryNew(1), AOp::QueryNew(2), AOp::Matches, AOp::Captures, AOp::RemoveMatch, AOp::Limit1, AOp::Walk, AOp::Logger]
}

struct World<'a> { a: &'a LangInfo, b: &'a LangInfo, parser: Parser, on_b: bool, trees: Vec<(Vec<u8>, Tree)>, query: Option<Query>, cursor: QueryCursor, outstanding: Option<usize>, logger: bool, interesting: bool }

impl<'a> World<'a> {
    fn new(a: &'a LangInfo, b: &'a LangInfo) -> Self {
        let mut parser = Parser::new();
        parser.set_language(&a.language).unwrap();
        World { a, b, parser, on_b: false, trees: vec![], query: None, cursor: QueryCursor::new(), outstanding: None, logger: false, interesting: false }
    }
    fn apply(&mut self, op: AOp) {
        match op {
            AOp::Parse(d) => {
                if self.outstanding.is_some() { return; }
                let t = self.parser.parse(DOCS[d], None).unwrap();
                if self.trees.len() >= 3 { self.trees.remove(0); }
                self.trees.push((DOCS[d].as_bytes().to_vec(), t));
            }
            AOp::Reparse => {
                if self.outstanding.is_some() || self.on_b { return; }
                let Some((text, tree)) = self.trees.last() else { return };
                if tree.language().node_kind_count() != self.a.language.node_kind_count() { return; }
                let e = Edit { start: text.len() / 2, old_len: 1.min(text.len() - text.len() / 2), ins: b"x y".to_vec() };
                let (nt, ie) = text::apply(text, &e);
                let mut old = tree.clone();
                old.edit(&ie);
                let t = self.parser.parse(&nt, Some(&old)).unwrap();
                let _ = old.changed_ranges(&t).count();
                if self.trees.len() >= 3 { self.trees.remove(0); }
                self.trees.push((nt, t));
            }
            AOp::EditExtreme(k) => {
                // edits allowed by the contract (start <= old_end) but far outside the text; the tree is then only navigated
                let Some((text, tree)) = self.trees.last_mut() else { return };
                let n = text.len();
                let big = u32::MAX as usize;
                let ie = match k {
                    0 => InputEdit { start_byte: 0, old_end_byte: big, new_end_byte: 0, start_position: Point { row: 0, column: 0 }, old_end_position: Point { row: big, column: big }, new_end_position: Point { row: 0, column: 0 } },
                    _ => InputEdit { start_byte: n + 5, old_end_byte: n + 10, new_end_byte: big - 1, start_position: Point { row: 9, column: 5 }, old_end_position: Point { row: 9, column: 10 }, new_end_position: Point { row: big - 1, column: 0 } },
                };
                tree.edit(&ie);
                let _ = XTree::build(tree);
                self.interesting = true;
            }
            AOp::Copy => { if let Some((t, tr)) = self.trees.last() { let c = (t.clone(), tr.clone()); if self.trees.len() < 3 { self.trees.push(c); } } }
            AOp::Delete => { if !self.trees.is_empty() { self.trees.remove(0); } }
            AOp::RangesValid => {
                if self.outstanding.is_some() { return; }
                let r = |s: usize, e: usize| Range { start_byte: s, end_byte: e, start_point: Point { row: 0, column: s }, end_point: Point { row: 0, column: e } };
                self.parser.set_included_ranges(&[r(0, 3), r(3, 3), r(5, 9)]).unwrap();
                let t = self.parser.parse(DOCS[0], None).unwrap();
                let _ = t.included_ranges();
                self.parser.set_included_ranges(&[]).unwrap();
                if self.trees.len() >= 3 { self.trees.remove(0); }
                self.trees.push((DOCS[0].as_bytes().to_vec(), t));
            }
            AOp::RangesInvalid => {
                let r = |s: usize, e: usize| Range { start_byte: s, end_byte: e, start_point: Point { row: 0, column: s }, end_point: Point { row: 0, column: e } };
                let _ = self.parser.set_included_ranges(&[r(4, 6), r(2, 3)]);
                let _ = self.parser.set_included_ranges(&[r(6, 2)]);
                self.interesting = true;
            }
            AOp::Cancel(d) => {
                if self.outstanding.is_some() { return; }
                let big: String = DOCS[d].repeat(40);
                let mut calls = 0;
                let mut cb = |_: &tree_sitter::ParseState| { calls += 1; if calls == 2 { ControlFlow::Break(()) } else { ControlFlow::Continue(()) } };
                let opts = ParseOptions::new().progress_callback(&mut cb);
                let bytes = big.as_bytes();
                let len = bytes.len();
                let r = self.parser.parse_with_options(&mut |i, _| if i < len { &bytes[i..] } else { &bytes[len..] }, None, Some(opts));
                if r.is_none() { self.outstanding = Some(d); self.interesting = true; }
            }
            AOp::Resume => {
                let Some(d) = self.outstanding else { return };
                let big: String = DOCS[d].repeat(40);
                let t = self.parser.parse(&big, None).unwrap();
                self.outstanding = None;
                if self.trees.len() >= 3 { self.trees.remove(0); }
                self.trees.push((big.into_bytes(), t));
            }
            AOp::Reset => { self.parser.reset(); self.outstanding = None; }
            AOp::DropParser => {
                // abandon whatever the parser holds (possibly a cancelled parse) by dropping it
                let mut p = Parser::new();
                p.set_language(if self.on_b { &self.b.language } else { &self.a.language }).unwrap();
                if self.logger { p.set_logger(Some(Box::new(|_, _| {}))); }
                self.parser = p;
                self.outstanding = None;
            }
            AOp::OtherLanguage => {
                if self.outstanding.is_some() { return; }
                self.on_b = !self.on_b;
                self.parser.set_language(if self.on_b { &self.b.language } else { &self.a.language }).unwrap();
            }
            AOp::QueryNew(j) => { self.query = Query::new(&self.a.language, QUERIES[j]).ok(); }
            AOp::Matches | AOp::Captures | AOp::RemoveMatch | AOp::Limit1 => {
                let Some(q) = &self.query else { return };
                let Some((text, tree)) = self.trees.iter().find(|(_, t)| t.language().node_kind_count() == self.a.language.node_kind_count() && t.language().name() == self.a.language.name()) else { return };
                if op == AOp::Limit1 { self.cursor.set_match_limit(1); }
                match op {
                    AOp::Captures | AOp::RemoveMatch => {
                        let mut it = self.cursor.captures(q, tree.root_node(), text.as_slice());
                        let mut k = 0;
                        while let Some((m, _)) = it.next() { k += 1; if op == AOp::RemoveMatch && k == 2 { m.remove(); } if k > 10_000 { break; } }
                    }
                    _ => {
                        let mut it = self.cursor.matches(q, tree.root_node(), text.as_slice());
                        let mut k = 0;
                        while let Some(_m) = it.next() { k += 1; if k > 10_000 { break; } }
                    }
                }
                let _ = self.cursor.did_exceed_match_limit();
            }
            AOp::Walk => { if let Some((_, t)) = self.trees.last() { let _ = XTree::build(t); let _ = t.root_node().to_sexp(); } }
            AOp::Logger => { self.logger = !self.logger; if self.logger { self.parser.set_logger(Some(Box::new(|_, _| {}))); } else { self.parser.set_logger(None); } }
        }
    }
}

const QATOMS: [&str; 14] = ["(", ")", "[", "]", "_", ".", "!", "@c", "f:", "\"x\"", "identifier", "?", "*", "#eq?"];

pub fn worker(ctx: &Ctx, res: &mut ShardResult) {
    alloc::install();
    let stmts = build_info(&crate::zoo::stmts());
    let arith = build_info(&crate::zoo::arith());
    let base = alloc::live_count();
    let check_balance = |what: &str, res: &mut ShardResult| {
        let live = alloc::live_count();
        if live != base { res.violation(&format!("leak-after-{}", what), format!("{} allocations still live (baseline {}) after every handle of {} was released", live, base, what), json!({"part": what})); }
        if alloc::bad_frees() > 0 { res.violation("foreign-or-double-free", format!("{} frees of pointers that were not live (during {})", alloc::bad_frees(), what), json!({"part": what})); }
    };
    // (1) the other explorers, unchanged, on fixed smaller boxes
    let sub_tier = if ctx.quick() { "mini" } else { "quick" };
    for id in ["C01", "C02", "C04", "C06", "C09", "C10", "C13", "C05", "C11", "C08"] {
        let c2 = Ctx { id: id.to_string(), tier: sub_tier.to_string(), seed: ctx.seed, shard: ctx.shard, nshards: ctx.nshards, deadline: ctx.deadline };
        let mut scratch = ShardResult::new();
        crate::checks::worker(&c2, &mut scratch);
        res.transitions += scratch.transitions;
        res.states += scratch.states;
        res.count(&format!("sub_{}_transitions", id), scratch.transitions);
        for c in scratch.caps { let c = format!("{}: {}", id, c); if !res.caps.contains(&c) { res.caps.push(c); } }
        check_balance(id, res);
        if ctx.out_of_time() { res.caps.push(format!("wall-clock budget reached in sub-explorer {}", id)); return; }
    }
    // (2) adversarial API histories
    let alpha = alphabet();
    let depth = if ctx.mini() { 2 } else if ctx.quick() { 3 } else { 4 };
    let mut idx = 0usize;
    for d in 1..=depth {
        let mut stop = false;
        crate::util::for_each_seq(alpha.len(), d, |ix| {
            idx += 1;
            if stop || !ctx.mine(idx) { return; }
            let hist: Vec<AOp> = ix.iter().map(|&i| alpha[i]).collect();
            crate::case!("{}", json!({"part": "api-history", "history": format!("{:?}", hist)}));
            let mut w = World::new(&stmts, &arith);
            for &op in &hist { w.apply(op); }
            let interesting = w.interesting;
            drop(w);
            res.transitions += hist.len() as u64;
            res.states += 1;
            if interesting { res.nontrivial += 1; }
            let live = alloc::live_count();
            if live != base { res.violation("leak-after-api-history", format!("{} allocations live after history {:?} (baseline {})", live, hist, base), json!({"part": "api-history", "history": format!("{:?}", hist)})); stop = res.too_many(); }
            if res.samples.len() < 2 && d == depth && interesting { res.sample(json!({"part": "api-history", "history": format!("{:?}", hist)})); }
        });
        if ctx.out_of_time() { res.caps.push("wall-clock budget reached in API histories".into()); return; }
    }
    check_balance("api-histories", res);
    // (3) query-source box: the error paths of the query parser
    let n = if ctx.mini() { 3 } else if ctx.quick() { 4 } else { 5 };
    let mut parser = Parser::new();
    parser.set_language(&stmts.language).unwrap();
    let trees: Vec<(Vec<u8>, Tree)> = DOCS.iter().map(|d| (d.as_bytes().to_vec(), parser.parse(d, None).unwrap())).collect();
    for len in 1..=n {
        crate::util::for_each_seq(QATOMS.len(), len, |ix| {
            idx += 1;
            if !ctx.mine(idx) { return; }
            let src: String = ix.iter().map(|&i| QATOMS[i]).collect::<Vec<_>>().join(" ");
            crate::case!("{}", json!({"part": "query-source", "source": src}));
            res.transitions += 1;
            let live_before = alloc::live_count();
            match Query::new(&stmts.language, &src) {
                Ok(q) => {
                    let mut cursor = QueryCursor::new();
                    for (text, tree) in &trees {
                        let mut it = cursor.matches(&q, tree.root_node(), text.as_slice());
                        let mut k = 0;
                        while let Some(_) = it.next() { k += 1; if k > 1000 { break; } }
                        let mut it = cursor.captures(&q, tree.root_node(), text.as_slice());
                        let mut k = 0;
                        while let Some(_) = it.next() { k += 1; if k > 1000 { break; } }
                    }
                }
                Err(e) => {
                    res.nontrivial += 1;
                    if e.offset > src.len() { res.violation("query-error-offset-outside-source", format!("source {:?}: error offset {} > length {}", src, e.offset, src.len()), json!({"part": "query-source", "source": src})); }
                }
            }
            let live_after = alloc::live_count();
            if live_after != live_before { res.violation("leak-in-query-new-or-exec", format!("query source {:?}: {} allocations before, {} after the query was dropped", src, live_before, live_after), json!({"part": "query-source", "source": src})); }
        });
    }
    drop(trees); drop(parser);
    check_balance("query-sources", res);
}

pub fn replay(case: &Value) -> Vec<String> {
    vec![format!("C07 cases are re-run by `./vf check C07 quick` (asan flavour); recorded case: {}", case)]
}
