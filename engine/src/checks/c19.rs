//! C19: grammar loading is safe under concurrency and after crashes. Real loader processes (hook H3) under a scheduler that
//! owns process interleaving, crash injection (SIGKILL of the process group) and the timeout answers of waiting loaders.
use crate::gram::*;
use crate::lang::{self, LangSpec};
use crate::run::{CheckMeta, Ctx, ShardResult};
use serde_json::{json, Value};
use std::collections::HashSet;
use std::io::{Read, Write};
use std::os::unix::fs::OpenOptionsExt;
use std::os::unix::process::CommandExt;
use std::path::{Path, PathBuf};
use std::process::{Child, Command, Stdio};
use tree_sitter_generate::OptLevel;

pub fn meta(tier: &str) -> CheckMeta {
    let q = tier != "thorough";
    CheckMeta {
        id: "C19", level: "model_checking",
        rule: "E-sched over real processes: N loader processes run the real Loader::load_language_at_path_with_name (built with hook H3) against a private cache/lib directory; the scheduler owns process scheduling (a loader only moves from one H3 point to the next when released), crashes (SIGKILL of the loader's process group at any point, including between the two halves of the compiler's output write), and time (the answer 'the 30 s have elapsed' to a polling loader). The compiler is a wrapper that forwards probes to clang and 'links' by copying a prebuilt library for the version named in parser.c in two halves with a point in between. Explicit-state depth-first search with a visited set over (per-loader last point/result, lock present, output in {absent, complete v1, complete v2, torn}, temp files, crashes and timeouts used); every state is re-reached by replaying its schedule from scratch. Initial states: {no library, stale v1 library} x {no leftover temp, leftover temp} x {no lock} plus leftover-lock variants; sources on disk are v2. Oracle: every Ok result is v2; at the point just before dlopen the output file is a complete build; after any crash a fresh loader started in the resulting cache state returns Ok within one timeout answer. Non-trivial = terminal states in which at least two loaders needed to recompile.",
        assumptions: vec!["the compile step is replaced by copying a prebuilt complete library of the version found in parser.c (the protocol, not the C compiler, is the subject)".into(), "modification times are set explicitly (sources newer than the stale library)".into()],
        exhaustive: true,
        bounds: json!({"loaders": if q { 2 } else { 3 }, "max_crashes": if q { 1 } else { 2 }, "max_timeout_answers": if q { 1 } else { 2 }}),
    }
}

struct Env { root: PathBuf, prebuilt: PathBuf, fakecc: PathBuf, exe: PathBuf, h_v1: u64, h_v2: u64 }

fn version_grammar(v: &str) -> String {
    G::new("probe").rule("source", rep(sym(&format!("{}marker", v)))).rule(&format!("{}marker", v), s("x")).to_json()
}

fn setup_env(shard: usize) -> Result<Env, String> {
    let root = lang::work_dir().join("c19").join(format!("shard{}-{}", shard, std::process::id()));
    let _ = std::fs::remove_dir_all(&root);
    let prebuilt = root.join("prebuilt");
    std::fs::create_dir_all(&prebuilt).map_err(|e| e.to_string())?;
    let mut hashes = vec![];
    for v in ["v1", "v2"] {
        let l = lang::build(&LangSpec { name: "probe".into(), grammar_json: version_grammar(v), scanner_c: None }, OptLevel::default()).map_err(|e| format!("{}", e))?;
        let bytes = std::fs::read(&l.so_path).map_err(|e| e.to_string())?;
        hashes.push(crate::util::fnv(&bytes));
        std::fs::write(prebuilt.join(format!("{}.so", v)), &bytes).map_err(|e| e.to_string())?;
    }
    let fakecc = root.join("fakecc");
    std::fs::write(&fakecc, r#"#!/bin/bash
# verification compiler wrapper: probes go to clang; a link job copies the prebuilt library in two halves
out=""; src=""
args=("$@")
for ((i=0;i<${#args[@]};i++)); do
  if [ "${args[$i]}" = "-o" ]; then out="${args[$((i+1))]}"; fi
  case "${args[$i]}" in *parser.c) src="${args[$i]}";; esac
done
if [ -z "$out" ] || [ -z "$src" ]; then exec clang "$@"; fi
ver=$(head -1 "$src" | sed -n 's/.*verif-version: \(v[0-9]\).*/\1/p')
lib="$VF_C19_PREBUILT/$ver.so"
size=$(stat -c %s "$lib"); half=$((size/2))
head -c $half "$lib" > "$out"
if [ -n "$TS_VERIF_CTL" ]; then echo "cc:half" > "$TS_VERIF_CTL.req"; read ans < "$TS_VERIF_CTL.ack"; fi
tail -c +$((half+1)) "$lib" >> "$out"
exit 0
"#).map_err(|e| e.to_string())?;
    use std::os::unix::fs::PermissionsExt;
    std::fs::set_permissions(&fakecc, std::fs::Permissions::from_mode(0o755)).map_err(|e| e.to_string())?;
    Ok(Env { root, prebuilt, fakecc, exe: std::env::current_exe().unwrap(), h_v1: hashes[0], h_v2: hashes[1] })
}

#[derive(Clone, Debug, PartialEq)]
pub struct Init { pub lib: &'static str, pub lock: bool, pub temp: bool }

#[derive(Clone, Copy, Debug, PartialEq, Eq, Hash)]
pub enum Act { Step(usize), Crash(usize), Timeout(usize) }

#[derive(Clone, Debug, PartialEq)]
enum PState { At(String), Done(String), Killed }

/// `req` and `ack` are FIFOs the explorer keeps open read+write for the whole life of the probe: the probe's open() never
/// blocks or sees a writer come and go, and a read on `ack` blocks until the explorer has written the answer.
/// process groups of the loader processes this worker has started and not yet reaped (killed by the panic hook and the
/// watchdog so that an engine failure leaves no loader behind)
static LIVE_PROBES: std::sync::Mutex<Vec<i32>> = std::sync::Mutex::new(Vec::new());
pub fn kill_all_probes() { if let Ok(v) = LIVE_PROBES.try_lock() { for &pg in v.iter() { unsafe { libc::kill(-pg, libc::SIGKILL); } } } }

struct Probe { child: Child, req: std::fs::File, ack: std::fs::File, state: PState, history: Vec<String> }

struct World<'a> { env: &'a Env, dir: PathBuf, probes: Vec<Probe>, crashes: usize, timeouts: usize, findings: Vec<(String, String)>, recompilers: usize, mixed: bool }

fn mkfifo(p: &Path) { let c = std::ffi::CString::new(p.to_str().unwrap()).unwrap(); unsafe { libc::mkfifo(c.as_ptr(), 0o600); } }

impl<'a> World<'a> {
    fn new(env: &'a Env, init: &Init, n: usize, tag: &str) -> World<'a> {
        let dir = env.root.join(format!("run-{}", tag));
        let _ = std::fs::remove_dir_all(&dir);
        for d in ["src", "lib", "cache/tree-sitter/lock", "ctl"] { std::fs::create_dir_all(dir.join(d)).unwrap(); }
        // sources on disk are v2, with a fixed modification time
        std::fs::write(dir.join("src/parser.c"), "// verif-version: v2\nint unused;\n").unwrap();
        let t_src = std::time::SystemTime::now() - std::time::Duration::from_secs(1000);
        let f = std::fs::File::options().write(true).open(dir.join("src/parser.c")).unwrap();
        f.set_modified(t_src).unwrap();
        let out = dir.join("lib/probe.so");
        // "+debug": the second loader builds the same grammar with CompileConfig debug (its own output path, and by the
        // loader's design its own lock); each output starts in the state the part before the '+' names
        let mixed = init.lib.ends_with("+debug");
        let base_lib = init.lib.trim_end_matches("+debug");
        if mixed && base_lib == "stale" {
            let o2 = dir.join("lib/probe.debug.so");
            std::fs::copy(env.prebuilt.join("v1.so"), &o2).unwrap();
            std::fs::File::options().write(true).open(&o2).unwrap().set_modified(t_src - std::time::Duration::from_secs(1000)).unwrap();
        }
        match base_lib {
            "stale" => { std::fs::copy(env.prebuilt.join("v1.so"), &out).unwrap(); std::fs::File::options().write(true).open(&out).unwrap().set_modified(t_src - std::time::Duration::from_secs(1000)).unwrap(); }
            "fresh" => { std::fs::copy(env.prebuilt.join("v2.so"), &out).unwrap(); }
            // stale only through the external scanner: the library (old version) is newer than parser.c but older than scanner.c
            "stale-scanner" => {
                std::fs::copy(env.prebuilt.join("v1.so"), &out).unwrap();
                std::fs::File::options().write(true).open(&out).unwrap().set_modified(t_src + std::time::Duration::from_secs(100)).unwrap();
                std::fs::write(dir.join("src/scanner.c"), "// verif scanner placeholder\nint tree_sitter_probe_external_scanner_unused;\n").unwrap();
            }
            _ => {}
        }
        if init.temp { let b = std::fs::read(env.prebuilt.join("v1.so")).unwrap(); std::fs::write(dir.join("lib/.probe.so.99999.ThreadId(1)"), &b[..b.len() / 3]).unwrap(); }
        let mut w = World { env, dir, probes: vec![], crashes: 0, timeouts: 0, findings: vec![], recompilers: 0, mixed };
        if init.lock { std::fs::write(w.lock_path(), b"").unwrap(); }
        for i in 0..n { w.spawn(i); }
        w
    }

    fn lock_path(&self) -> PathBuf {
        // the loader derives the lock name from a hash of the output path; find or predict it by asking the same hasher
        use std::hash::{Hash, Hasher};
        let mut h = std::hash::DefaultHasher::new();
        self.dir.join("lib/probe.so").hash(&mut h);
        self.dir.join(format!("cache/tree-sitter/lock/probe-{:x}.lock", h.finish()))
    }

    /// whether probe i is the debug-configuration loader, and the library it builds and loads
    fn is_debug(&self, i: usize) -> bool { self.mixed && i == 1 }
    fn output_of(&self, i: usize) -> PathBuf { self.dir.join(if self.is_debug(i) { "lib/probe.debug.so" } else { "lib/probe.so" }) }
    fn any_lock(&self) -> bool { std::fs::read_dir(self.dir.join("cache/tree-sitter/lock")).map(|rd| rd.flatten().count() > 0).unwrap_or(false) }

    fn spawn(&mut self, i: usize) {
        let prefix = self.dir.join(format!("ctl/p{}", i));
        let (reqp, ackp) = (PathBuf::from(format!("{}.req", prefix.display())), PathBuf::from(format!("{}.ack", prefix.display())));
        let _ = std::fs::remove_file(&reqp); let _ = std::fs::remove_file(&ackp);
        mkfifo(&reqp); mkfifo(&ackp);
        let req = std::fs::OpenOptions::new().read(true).write(true).custom_flags(libc::O_NONBLOCK).open(&reqp).unwrap();
        let ack = std::fs::OpenOptions::new().read(true).write(true).open(&ackp).unwrap();
        let mut cmd = if let Ok(d) = std::env::var("VF_C19_STRACE") {
            static N: std::sync::atomic::AtomicUsize = std::sync::atomic::AtomicUsize::new(0);
            let k = N.fetch_add(1, std::sync::atomic::Ordering::Relaxed);
            let mut c = Command::new("strace");
            c.arg("-f").arg("-tt").arg("-o").arg(format!("{}/st-{}-{}.txt", d, std::process::id(), k)).arg("-e").arg("trace=openat,read,write,close,exit_group").arg(&self.env.exe);
            c
        } else { Command::new(&self.env.exe) };
        let child = cmd.arg("loader-probe").arg(self.dir.join("src")).arg(self.dir.join("lib")).arg(if self.is_debug(i) { "debug" } else { "release" })
            .env("TS_VERIF_CTL", &prefix).env("XDG_CACHE_HOME", self.dir.join("cache")).env("HOME", &self.dir)
            .env("CC", &self.env.fakecc).env("VF_C19_PREBUILT", &self.env.prebuilt).env_remove("CFLAGS").env_remove("VF_CRASH_FILE")
            .stdout(Stdio::piped()).stderr(Stdio::null()).process_group(0).spawn().expect("spawn loader-probe");
        if let Ok(mut v) = LIVE_PROBES.lock() { v.push(child.id() as i32); if v.len() > 64 { v.drain(..32); } }
        let mut p = Probe { child, req, ack, state: PState::At("spawned".into()), history: vec![] };
        Self::wait_next(&mut p);
        let st = p.state.clone();
        self.note_state(i, &st);
        if i < self.probes.len() { self.probes[i] = p; } else { self.probes.push(p); }
    }

    /// wait until the probe reports its next point or exits
    fn wait_next(p: &mut Probe) {
        let t0 = std::time::Instant::now();
        let mut buf = Vec::new();
        loop {
            let mut tmp = [0u8; 256];
            match p.req.read(&mut tmp) { Ok(n) if n > 0 => { if std::env::var("VF_C19_TRACE").is_ok() { eprintln!("[{}] pid {} req bytes {:?}", std::process::id(), p.child.id(), String::from_utf8_lossy(&tmp[..n])); } buf.extend_from_slice(&tmp[..n]); } _ => {} }
            if let Some(pos) = buf.iter().position(|&b| b == b'\n') {
                let name = String::from_utf8_lossy(&buf[..pos]).trim().to_string();
                p.history.push(name.clone());
                p.state = PState::At(name);
                return;
            }
            if let Ok(Some(_)) = p.child.try_wait() {
                let mut out = String::new();
                if let Some(mut so) = p.child.stdout.take() { let _ = so.read_to_string(&mut out); }
                p.state = PState::Done(out.lines().last().unwrap_or("ERR no-output").trim().to_string());
                return;
            }
            if t0.elapsed().as_secs() > 240 { p.state = PState::Done("ERR probe-hang".into()); unsafe { libc::kill(-(p.child.id() as i32), libc::SIGKILL); } let _ = p.child.wait(); return; }
            std::thread::sleep(std::time::Duration::from_micros(300));
        }
    }

    fn answer(&mut self, i: usize, ans: &str) {
        // One answer per reported point, written to the FIFO the explorer holds open: the probe (or the compiler wrapper)
        // blocks in read() until it arrives. (An earlier version opened the FIFO per answer; under load the probe could reach
        // its next point before that descriptor was closed, read end-of-file and run on unscheduled.)
        if !matches!(self.probes[i].state, PState::At(_)) {
            self.findings.push(("ENGINE-answer-to-finished-probe".into(), format!("loader {} is {:?} and cannot be answered", i, self.probes[i].state)));
            return;
        }
        let r = self.probes[i].ack.write_all(format!("{}\n", ans).as_bytes());
        if std::env::var("VF_C19_TRACE").is_ok() { eprintln!("[{}] pid {} answered {} ({:?}) at state {:?}", std::process::id(), self.probes[i].child.id(), ans, r, self.probes[i].state); }
        if let Err(e) = r { self.findings.push(("ENGINE-answer-write-failed".into(), format!("loader {}: {}", i, e))); }
        Self::wait_next(&mut self.probes[i]);
        let st = self.probes[i].state.clone();
        self.note_state(i, &st);
    }

    fn note_state(&mut self, i: usize, st: &PState) {
        match st {
            PState::At(name) if name == "before-load" => { match self.output_class_of(i).as_str() { "v1" | "v2" => {} c => self.findings.push(("partial-or-missing-library-visible-at-load".into(), format!("loader {} is about to load the output file, which is {}", i, c))) } }
            PState::At(name) if name == "checked:recompile" => { self.recompilers += 1; }
            PState::Done(r) if r.starts_with("OK") && r != "OK v2" => self.findings.push(("success-with-stale-library".into(), format!("loader {} returned {}", i, r))),
            _ => {}
        }
    }

    fn apply(&mut self, a: Act) {
        if std::env::var("VF_C19_TRACE").is_ok() { eprintln!("apply {:?} states {:?}", a, self.probes.iter().map(|p| format!("{:?}", p.state)).collect::<Vec<_>>()); }
        match a {
            Act::Step(i) => self.answer(i, "go"),
            Act::Timeout(i) => { self.timeouts += 1; self.answer(i, "timeout"); }
            Act::Crash(i) => {
                self.crashes += 1;
                let pid = self.probes[i].child.id() as i32;
                unsafe { libc::kill(-pid, libc::SIGKILL); }
                let _ = self.probes[i].child.wait();
                self.probes[i].state = PState::Killed;
            }
        }
    }

    fn output_class(&self) -> String { self.output_class_of(0) }
    fn output_class_of(&self, i: usize) -> String {
        match std::fs::read(self.output_of(i)) {
            Err(_) => "absent".into(),
            Ok(b) => { let h = crate::util::fnv(&b); if h == self.env.h_v1 { "v1".into() } else if h == self.env.h_v2 { "v2".into() } else { format!("torn({} bytes)", b.len()) } }
        }
    }

    fn temps(&self) -> Vec<String> {
        let mut v: Vec<String> = std::fs::read_dir(self.dir.join("lib")).map(|rd| rd.flatten().filter_map(|e| { let n = e.file_name().to_string_lossy().to_string(); if n.starts_with(".probe.") { let len = e.metadata().map(|m| m.len()).unwrap_or(0); Some(format!("temp:{}", if len == 0 { "empty" } else { "data" })) } else { None } }).collect()).unwrap_or_default();
        v.sort();
        v
    }

    fn key(&self) -> String {
        let ps: Vec<String> = self.probes.iter().map(|p| match &p.state { PState::At(n) => format!("@{}", n), PState::Done(r) => format!("={}", r), PState::Killed => "killed".into() }).collect();
        let short = |o: String| if o.starts_with("torn") { "torn".to_string() } else { o };
        let out = short(self.output_class());
        let out2 = if self.mixed { short(self.output_class_of(1)) } else { String::new() };
        format!("{:?}|lock={}|out={}{}|{:?}|c{}t{}", ps, if self.mixed { self.any_lock() } else { self.lock_path().exists() }, out, out2, self.temps(), self.crashes, self.timeouts)
    }

    fn enabled(&self, max_crashes: usize, max_timeouts: usize) -> Vec<Act> {
        let mut v = vec![];
        for (i, p) in self.probes.iter().enumerate() {
            if let PState::At(name) = &p.state {
                v.push(Act::Step(i));
                if name == "poll" && self.timeouts < max_timeouts { v.push(Act::Timeout(i)); }
                if self.crashes < max_crashes && name != "spawned" { v.push(Act::Crash(i)); }
            }
        }
        v
    }

    fn terminal(&self) -> bool { self.probes.iter().all(|p| !matches!(p.state, PState::At(_))) }

    fn shutdown(&mut self) {
        for p in self.probes.iter_mut() { if matches!(p.state, PState::At(_)) { unsafe { libc::kill(-(p.child.id() as i32), libc::SIGKILL); } let _ = p.child.wait(); } }
    }
}

fn run_schedule<'a>(env: &'a Env, init: &Init, n: usize, schedule: &[Act], tag: &str) -> World<'a> {
    let mut w = World::new(env, init, n, tag);
    for &a in schedule { w.apply(a); }
    w
}

/// after a crash: a fresh loader in the resulting cache state must succeed within one timeout answer
fn aftermath(w: &mut World, findings: &mut Vec<(String, String)>) {
    let i = w.probes.len();
    w.spawn(i);
    let mut polls = 0;
    let mut timeouts = 0;
    for _ in 0..60 {
        match w.probes[i].state.clone() {
            PState::At(name) => {
                if name == "poll" { polls += 1; if polls >= 3 && timeouts < 1 { timeouts += 1; w.answer(i, "timeout"); continue; } if polls > 8 { break; } }
                w.answer(i, "go");
            }
            _ => break,
        }
    }
    match w.probes[i].state.clone() {
        PState::Done(r) if r == "OK v2" => {}
        PState::Done(r) => findings.push((format!("after-crash-later-load-fails:{}", r.replace(' ', "-")), format!("a fresh loader started after the crash returned {:?} (lock present: {}, output: {})", r, w.lock_path().exists(), w.output_class()))),
        _ => findings.push(("after-crash-later-load-never-finishes".into(), "a fresh loader did not finish".into())),
    }
}

fn case_json(init: &Init, n: usize, schedule: &[Act]) -> Value { json!({"initial": format!("{:?}", init), "loaders": n, "schedule": schedule.iter().map(|a| format!("{:?}", a)).collect::<Vec<_>>()}) }

fn explore(ctx: &Ctx, env: &Env, init: &Init, n: usize, max_crashes: usize, max_timeouts: usize, first: Option<Act>, res: &mut ShardResult) {
    let mut seen: HashSet<String> = HashSet::new();
    let mut stack: Vec<Vec<Act>> = vec![first.map(|a| vec![a]).unwrap_or_default()];
    let tag = format!("{}", ctx.shard);
    let mut terminal_outcomes: HashSet<String> = HashSet::new();
    while let Some(schedule) = stack.pop() {
        crate::case!("{}", case_json(init, n, &schedule));
        let mut w = run_schedule(env, init, n, &schedule, &tag);
        res.transitions += schedule.len() as u64 + 1;
        let key = w.key();
        let mut findings = std::mem::take(&mut w.findings);
        if !seen.insert(key.clone()) { w.shutdown(); continue; }
        res.states += 1;
        if w.terminal() {
            if w.recompilers >= 2 { res.nontrivial += 1; }
            terminal_outcomes.insert(key.clone());
            res.outcome(crate::util::fnv(key.as_bytes()));
            if w.crashes > 0 || init.lock { aftermath(&mut w, &mut findings); }
            res.count("terminal_states", 1);
        } else {
            for a in w.enabled(max_crashes, max_timeouts) { let mut s2 = schedule.clone(); s2.push(a); stack.push(s2); }
        }
        w.shutdown();
        for (fp, m) in findings {
            // a leftover lock (from an earlier crash) is the same situation as a crash that leaves the lock behind
            res.violation(&fp, format!("{} | initial {:?}, schedule {:?}", m, init, schedule), case_json(init, n, &schedule));
        }
        if res.too_many() { return; }
        if ctx.out_of_time() { res.caps.push("wall-clock budget reached; remaining schedules not explored".into()); return; }
    }
    if res.samples.len() < 2 { res.sample(json!({"initial": format!("{:?}", init), "terminal_states": terminal_outcomes.iter().take(3).collect::<Vec<_>>()})); }
}

pub fn worker(ctx: &Ctx, res: &mut ShardResult) {
    crate::run::pause_watchdog(true);
    let env = match setup_env(ctx.shard) { Ok(e) => e, Err(e) => { res.violation("ENGINE-c19-setup", e, json!({})); return; } };
    let thorough = ctx.tier == "thorough";
    let (n, mc, mt) = if thorough { (3, 2, 2) } else if ctx.mini() { (2, 0, 1) } else { (2, 1, 1) };
    let inits = vec![
        Init { lib: "none", lock: false, temp: false }, Init { lib: "stale", lock: false, temp: false },
        Init { lib: "none", lock: false, temp: true }, Init { lib: "stale", lock: false, temp: true },
        Init { lib: "none", lock: true, temp: false }, Init { lib: "stale", lock: true, temp: false },
        Init { lib: "fresh", lock: false, temp: false }, Init { lib: "fresh", lock: true, temp: true },
        Init { lib: "stale-scanner", lock: false, temp: false },
        // two loaders of one grammar with different build configurations (release and debug: two outputs, two locks)
        Init { lib: "stale+debug", lock: false, temp: false }, Init { lib: "none+debug", lock: false, temp: false },
    ];
    // (quick tier: the stale variant only)
    let inits: Vec<Init> = inits.into_iter().filter(|i| thorough || i.lib != "none+debug").collect();
    // shard over (initial state, first action)
    let mut idx = 0usize;
    for init in &inits {
        // (a fresh library needs no compile: two loaders suffice there)
        let nn = if thorough && init.lib == "fresh" { 2 } else { n };
        let firsts: Vec<Act> = (0..nn).map(Act::Step).collect();
        for f in firsts {
            idx += 1;
            if !ctx.mine(idx) { continue; }
            explore(ctx, &env, init, nn, mc, mt, Some(f), res);
            if res.too_many() || ctx.out_of_time() { let _ = std::fs::remove_dir_all(&env.root); return; }
        }
    }
    let _ = std::fs::remove_dir_all(&env.root);
}

/// child process entry: run the real loader once and print the outcome
pub fn probe_main(src: &str, lib: &str, debug: bool) {
    use tree_sitter_loader::{CompileConfig, Loader};
    let mut loader = Loader::with_parser_lib_path(PathBuf::from(lib));
    loader.debug_build(debug);
    let srcp = PathBuf::from(src);
    let mut config = CompileConfig::new(&srcp, None, None);
    config.name = "probe".to_string();
    match loader.load_language_at_path_with_name(config) {
        Ok(lang) => {
            let v = (0..lang.node_kind_count() as u16).filter_map(|i| lang.node_kind_for_id(i)).find(|k| k.ends_with("marker")).map(|k| k.trim_end_matches("marker").to_string()).unwrap_or("unknown".into());
            println!("OK {}", v);
        }
        Err(e) => {
            let d = format!("{:?}", e);
            let kind = d.split(|c: char| !c.is_alphanumeric()).next().unwrap_or("Error").to_string();
            println!("ERR {}", kind);
        }
    }
}

fn parse_init(s: &str) -> Option<Init> {
    // "Init { lib: \"stale\", lock: true, temp: false }"
    let lib = if s.contains("\"stale+debug\"") { "stale+debug" } else if s.contains("\"none+debug\"") { "none+debug" } else if s.contains("\"stale-scanner\"") { "stale-scanner" } else if s.contains("\"stale\"") { "stale" } else if s.contains("\"fresh\"") { "fresh" } else if s.contains("\"none\"") { "none" } else { return None };
    Some(Init { lib, lock: s.contains("lock: true"), temp: s.contains("temp: true") })
}

fn parse_act(s: &str) -> Option<Act> {
    let n: usize = s.trim_end_matches(')').split('(').nth(1)?.parse().ok()?;
    if s.starts_with("Step") { Some(Act::Step(n)) } else if s.starts_with("Crash") { Some(Act::Crash(n)) } else if s.starts_with("Timeout") { Some(Act::Timeout(n)) } else { None }
}

/// Re-execute one recorded schedule against real loader processes, outside the explorer.
pub fn replay(case: &Value) -> Vec<String> {
    let case = if case.get("kind").and_then(|k| k.as_str()) == Some("crash") { &case["case"] } else { case };
    let (Some(init), Some(sched)) = (case["initial"].as_str().and_then(parse_init), case["schedule"].as_array()) else { return vec![format!("not a schedule case: {}", case)] };
    let schedule: Vec<Act> = sched.iter().filter_map(|a| a.as_str().and_then(parse_act)).collect();
    let n = case["loaders"].as_u64().unwrap_or(2) as usize;
    let env = match setup_env(9000) { Ok(e) => e, Err(e) => return vec![format!("ENGINE setup failed: {}", e)] };
    let mut w = World::new(&env, &init, n, "replay");
    for (k, &a) in schedule.iter().enumerate() {
        let en = w.enabled(usize::MAX, usize::MAX);
        if !en.contains(&a) { w.shutdown(); let _ = std::fs::remove_dir_all(&env.root); return vec![format!("ENGINE replay diverged: action #{} {:?} is not enabled (enabled: {:?})", k, a, en)]; }
        w.apply(a);
        println!("{:?} -> {}", a, w.key());
    }
    let mut findings = std::mem::take(&mut w.findings);
    if w.terminal() && (w.crashes > 0 || init.lock) { aftermath(&mut w, &mut findings); println!("aftermath -> {}", w.key()); }
    findings.extend(std::mem::take(&mut w.findings));
    w.shutdown();
    let _ = std::fs::remove_dir_all(&env.root);
    findings.into_iter().map(|(f, m)| format!("{}: {}", f, m)).collect()
}
