//! C09: the tree is a pure function of (language, text, included ranges): chunkings, encodings, parser history, cancellation.
use crate::checks::c_hist::build_info;
use crate::run::{CheckMeta, Ctx, ShardResult};
use crate::text::{self, Edit};
use crate::wf::LangInfo;
use crate::xtree::XTree;
use serde_json::{json, Value};
use std::ops::ControlFlow;
use tree_sitter::{ParseOptions, Parser, Point, Range, Tree};

pub fn meta(tier: &str) -> CheckMeta {
    CheckMeta {
        id: "C09", level: "model_checking",
        rule: "E-box/E-sched over environment answers, reference = whole-buffer parse by a fresh parser. (i) chunkings: every one of the 2^(n-1) split sets for documents <= 12 (thorough 14) bytes, and for documents <= 4 (thorough 7) bytes every split set crossed with every list of <= 2 included ranges over all byte positions (reference = whole-buffer parse with the same ranges), every single and pair of split points up to 40 (thorough 64) bytes, fixed chunk sizes 1..8 on big documents (splits inside multi-byte characters included; a request at a character start always yields the whole character, which is what the runtime's re-request mechanism requires); (ii) UTF-16LE/BE vs UTF-8 under the code-unit offset map, crossed with unit chunkings (also between surrogates); (iii) BFS depth 3 over prior parser histories {parse other doc, other language, ranges set+cleared, cancelled parse + reset, logger on, logger off, parse the empty document, parse in UTF-16}; (iii') the final parse under an explicit range list (up to four lists per document: one range, two with a gap, two adjacent, half + last byte) after every history of <= 2 steps from {same byte offsets with other points, all offsets shifted, first range only, default list} x {followed by a parse of another document, not}, ranges left in force, reference = fresh parser given the list; tree and parser must report the list; (iv) cancellation at every progress-callback index (deviation 1) and every pair (deviation 2) followed by resume, and cancel + reset + other document, for fresh parses and for re-parses with an edited old tree. UTF-16 also as raw bytes through the C read callback, windows of 4..9 bytes, against the whole-buffer parse. Non-trivial = run whose environment answers actually deviated (>=1 split inside the text / >=1 cancellation / non-empty history).",
        assumptions: vec!["the progress callback fires once per 100 parser operations; cancellation points are therefore every 100th operation".into()],
        exhaustive: true,
        bounds: json!({"tier": tier, "all_chunkings_up_to_bytes": if tier == "quick" { 12 } else { 14 }, "split_pairs_up_to_bytes": if tier == "quick" { 48 } else { 64 }, "history_depth": 3, "cancel_deviations": 2}),
    }
}

fn case_json(part: &str, lang: &str, doc: &[u8], extra: Value) -> Value {
    json!({"part": part, "lang": lang, "doc": crate::util::bytes_json(doc), "x": extra})
}

fn utf8_len(b: u8) -> usize { if b < 0x80 { 1 } else if b >> 5 == 0b110 { 2 } else if b >> 4 == 0b1110 { 3 } else if b >> 3 == 0b11110 { 4 } else { 1 } }

/// read callback for a set of split points (sorted). A request at i returns up to the next split, but never less than the
/// complete character that starts at i.
fn split_end(text: &[u8], splits: &[usize], i: usize) -> usize {
    let len = text.len();
    let mut end = splits.iter().copied().find(|&s| s > i).unwrap_or(len);
    let need = (i + utf8_len(text[i])).min(len);
    if end < need { end = need; }
    end
}

fn parse_with_splits(parser: &mut Parser, text: &[u8], splits: &[usize], old: Option<&Tree>) -> Option<Tree> {
    let len = text.len();
    parser.parse_with_options(&mut |i, _| if i < len { &text[i..split_end(text, splits, i)] } else { &text[len..] }, old, None)
}

pub fn reference(info: &LangInfo, text: &[u8]) -> XTree {
    let mut p = Parser::new();
    p.set_language(&info.language).unwrap();
    XTree::build(&p.parse(text, None).unwrap())
}

fn same(a: &XTree, b: &XTree) -> Option<String> {
    if let Some(d) = a.diff_visible(b) { return Some(d); }
    for i in 0..a.nodes.len() { if a.nodes[i].has_error != b.nodes[i].has_error { return Some(format!("node #{} has_error differs", i)); } }
    None
}

// ---------------------------------------------------------------- (i') chunkings crossed with included ranges
/// For short documents: every list of <= 2 included ranges over all byte positions x every chunking of the read callback.
/// Reference = whole-buffer parse with the same ranges. (The lexer drops and re-requests its chunk whenever it moves to another
/// range, so range seams and chunk boundaries interact.) Range lists whose boundary cuts a multi-byte character are left
/// to C13, where that is a recorded finding.
fn part_chunkings_with_ranges(ctx: &Ctx, info: &LangInfo, docs: &[Vec<u8>], idx: &mut usize, res: &mut ShardResult) {
    let maxlen = if ctx.mini() { 3 } else if ctx.quick() { 4 } else { 7 };
    let mut parser = Parser::new();
    parser.set_language(&info.language).unwrap();
    for d in docs.iter().filter(|d| d.len() >= 2 && d.len() <= maxlen) {
        *idx += 1;
        if !ctx.mine(*idx) { continue; }
        let n = d.len();
        let char_ok = |b: usize| match std::str::from_utf8(d) { Ok(st) => b >= n || st.is_char_boundary(b), Err(_) => true };
        for rl in crate::hist::range_lists_for(n, 2) {
            if rl.is_empty() || rl.iter().any(|&(s, e)| (s <= n && !char_ok(s)) || (e <= n && !char_ok(e))) { continue; }
            let rs: Vec<Range> = rl.iter().map(|&(s, e)| crate::checks::c13::mk_range(d, s, e)).collect();
            parser.set_included_ranges(&rs).unwrap();
            let refx = XTree::build(&parser.parse(d, None).unwrap());
            for mask in 1u32..(1u32 << (n - 1)) {
                let splits: Vec<usize> = (1..n).filter(|p| mask & (1 << (p - 1)) != 0).collect();
                crate::case!("{}", case_json("chunking-ranges", &info.name, d, json!({"splits": splits, "ranges": rl})));
                res.transitions += 1;
                res.nontrivial += 1;
                let t = parse_with_splits(&mut parser, d, &splits, None).unwrap();
                if let Some(m) = same(&XTree::build(&t), &refx) { res.violation("chunking-changes-tree-with-ranges", format!("ranges {:?} splits {:?}: {}", rl, splits, m), case_json("chunking-ranges", &info.name, d, json!({"splits": splits, "ranges": rl}))); }
            }
            if res.too_many() { break; }
        }
        parser.set_included_ranges(&[]).unwrap();
        res.states += 1;
        if res.too_many() || ctx.out_of_time() { return; }
    }
}

// ---------------------------------------------------------------- (i) chunkings
fn part_chunkings(ctx: &Ctx, info: &LangInfo, docs: &[Vec<u8>], big: &[Vec<u8>], idx: &mut usize, res: &mut ShardResult) {
    let all_upto = if ctx.mini() { 7 } else if ctx.quick() { 12 } else { 14 };
    let pairs_upto = if ctx.mini() { 14 } else if ctx.quick() { 48 } else { 64 };
    let mut parser = Parser::new();
    parser.set_language(&info.language).unwrap();
    for d in docs {
        *idx += 1;
        if !ctx.mine(*idx) { continue; }
        let n = d.len();
        if n < 2 { continue; }
        let refx = reference(info, d);
        let mut run = |splits: &[usize], res: &mut ShardResult| {
            crate::case!("{}", case_json("chunking", &info.name, d, json!({"splits": splits})));
            res.transitions += 1;
            let t = parse_with_splits(&mut parser, d, splits, None).unwrap();
            let x = XTree::build(&t);
            if let Some(m) = same(&x, &refx) { res.violation("chunking-changes-tree", format!("splits {:?}: {}", splits, m), case_json("chunking", &info.name, d, json!({"splits": splits}))); }
            if !splits.is_empty() { res.nontrivial += 1; }
            res.outcome(crate::util::fnv_mix(x.nodes.len() as u64, splits.len() as u64));
        };
        if n <= all_upto {
            for mask in 0u32..(1u32 << (n - 1)) {
                let splits: Vec<usize> = (1..n).filter(|&p| mask & (1 << (p - 1)) != 0).collect();
                run(&splits, res);
            }
            res.states += 1 << (n - 1);
        } else if n <= pairs_upto {
            for a in 1..n { run(&[a], res); for b in a + 1..n { run(&[a, b], res); } }
            res.states += (n * n / 2) as u64;
        }
        // Strict partition semantics (a re-request inside a chunk returns only the rest of that chunk): a character cut
        // by a boundary can then never be delivered whole. Known finding, fingerprinted separately.
        if let Ok(st) = std::str::from_utf8(d) {
            for p in 1..n {
                if st.is_char_boundary(p) { continue; }
                crate::case!("{}", case_json("partition", &info.name, d, json!({"splits": [p]})));
                let len = d.len();
                let t = parser.parse_with_options(&mut |i, _| if i < len { if i < p { &d[i..p] } else { &d[i..] } } else { &d[len..] }, None, None).unwrap();
                res.transitions += 1;
                if let Some(m) = same(&XTree::build(&t), &refx) {
                    res.violation("partition-chunk-splits-character", format!("split {}: {}", p, m), case_json("partition", &info.name, d, json!({"splits": [p]})));
                }
            }
        }
        if res.samples.len() < 1 && n > 4 { res.sample(case_json("chunking", &info.name, d, json!({"splits": [1, n / 2]}))); }
        if res.too_many() { return; }
    }
    for d in big {
        *idx += 1;
        if !ctx.mine(*idx) { continue; }
        let refx = reference(info, d);
        for k in 1..=8usize {
            crate::case!("{}", case_json("chunk-size", &info.name, d, json!({"size": k})));
            let splits: Vec<usize> = (1..d.len()).filter(|p| p % k == 0).collect();
            res.transitions += 1;
            res.states += 1;
            let t = parse_with_splits(&mut parser, d, &splits, None).unwrap();
            if let Some(m) = same(&XTree::build(&t), &refx) { res.violation("chunking-changes-tree", format!("chunk size {}: {}", k, m), case_json("chunk-size", &info.name, d, json!({"size": k}))); }
            res.nontrivial += 1;
        }
    }
}

// ---------------------------------------------------------------- (ii) encodings
fn utf16_map(s: &str) -> (Vec<u16>, Vec<usize>) {
    // units, and for every utf-8 byte offset at a char boundary the utf-16 *byte* offset (usize::MAX elsewhere)
    let mut units = vec![];
    let mut map = vec![usize::MAX; s.len() + 1];
    for (b, ch) in s.char_indices() {
        map[b] = units.len() * 2;
        let mut buf = [0u16; 2];
        units.extend_from_slice(ch.encode_utf16(&mut buf));
    }
    map[s.len()] = units.len() * 2;
    (units, map)
}

/// Parse UTF-16 text given as raw BYTES through the C API's read callback (the Rust wrappers only hand out whole code
/// units): a request at byte i is answered with the window [i, i + window), so chunks may end at odd offsets, inside a code
/// unit or inside a surrogate pair. Windows of >= 4 bytes always hold the character that starts at the requested offset.
pub fn parse_utf16_bytes(lang: &tree_sitter::Language, bytes: &[u8], window: usize, le: bool) -> Tree {
    use std::os::raw::{c_char, c_void};
    use tree_sitter::ffi;
    struct Pay { ptr: *const u8, len: usize, window: usize }
    unsafe extern "C" fn read(payload: *mut c_void, byte_index: u32, _pos: ffi::TSPoint, bytes_read: *mut u32) -> *const c_char {
        let p = &*(payload as *const Pay);
        let i = (byte_index as usize).min(p.len);
        let end = (i + p.window).min(p.len);
        *bytes_read = (end - i) as u32;
        p.ptr.add(i) as *const c_char
    }
    let pay = Pay { ptr: bytes.as_ptr(), len: bytes.len(), window };
    unsafe {
        let raw = ffi::ts_parser_new();
        let l = lang.clone().into_raw();
        assert!(ffi::ts_parser_set_language(raw, l));
        let input = ffi::TSInput { payload: &pay as *const Pay as *mut c_void, read: Some(read), encoding: if le { ffi::TSInputEncodingUTF16LE } else { ffi::TSInputEncodingUTF16BE }, decode: None };
        let t = ffi::ts_parser_parse(raw, std::ptr::null(), input);
        assert!(!t.is_null());
        ffi::ts_parser_delete(raw);
        drop(tree_sitter::Language::from_raw(l));
        Tree::from_raw(t)
    }
}

fn part_encodings(ctx: &Ctx, info: &LangInfo, docs: &[Vec<u8>], idx: &mut usize, res: &mut ShardResult) {
    let mut parser = Parser::new();
    parser.set_language(&info.language).unwrap();
    for d in docs {
        *idx += 1;
        if !ctx.mine(*idx) { continue; }
        let Ok(s) = std::str::from_utf8(d) else { continue };
        if s.contains('\u{feff}') { continue; }
        let refx = reference(info, d);
        let (units, map) = utf16_map(s);
        let le: Vec<u16> = units.iter().map(|u| u.to_le()).collect();
        let be: Vec<u16> = units.iter().map(|u| u.to_be()).collect();
        // line starts in utf-16 bytes, to recompute columns
        let col16 = |b8: usize| -> Point {
            let p = text::point_at(d, b8);
            let line_start8 = b8 - p.column;
            Point { row: p.row, column: map[b8] - map[line_start8] }
        };
        for (enc, data) in [("utf16le", &le), ("utf16be", &be)] {
            for chunk in [0usize, 1, 2, 3] {
                crate::case!("{}", case_json("encoding", &info.name, d, json!({"enc": enc, "unit_chunk": chunk})));
                res.transitions += 1;
                res.states += 1;
                let len = data.len();
                let mut cb = |i: usize, _: Point| -> &[u16] {
                    if i >= len { return &data[len..]; }
                    if chunk == 0 { return &data[i..]; }
                    let end = ((i / chunk + 1) * chunk).max(i + 2).min(len);
                    &data[i..end]
                };
                let t = if enc == "utf16le" { parser.parse_utf16_le_with_options(&mut cb, None, None) } else { parser.parse_utf16_be_with_options(&mut cb, None, None) }.unwrap();
                let x = XTree::build(&t);
                let mut bad = None;
                if x.nodes.len() != refx.nodes.len() { bad = Some(format!("node count {} vs {}", x.nodes.len(), refx.nodes.len())); }
                else {
                    for i in 0..x.nodes.len() {
                        let (a, b) = (&x.nodes[i], &refx.nodes[i]);
                        let pos_ok = map[b.start] == a.start && map[b.end] == a.end && col16(b.start) == a.sp && col16(b.end) == a.ep;
                        if a.kind_id != b.kind_id || a.children.len() != b.children.len() || a.field_id != b.field_id || a.missing != b.missing || a.extra != b.extra || a.has_error != b.has_error || !pos_ok {
                            bad = Some(format!("node #{}: {} {} vs utf-8 {} (expected utf-16 bytes {}..{} points {:?}-{:?})", i, enc, x.brief(i), refx.brief(i), map[b.start], map[b.end], col16(b.start), col16(b.end)));
                            break;
                        }
                    }
                }
                if let Some(m) = bad {
                    // Known finding: error-recovery costs are measured in bytes, so for erroneous documents the recovery
                    // *shape* may differ between encodings. That exact situation (both trees report an error) has its own
                    // fingerprint; anything else (error-free reference, or only one side reporting an error) does not.
                    let both_err = refx.root_has_error() && x.root_has_error();
                    let fp = if both_err { "encoding-changes-error-recovery-shape" } else { "encoding-changes-tree" };
                    res.violation(fp, m, case_json("encoding", &info.name, d, json!({"enc": enc, "unit_chunk": chunk})));
                }
                if s.len() != units.len() { res.nontrivial += 1; }
            }
            // the same text as raw bytes, every window size 4..=9 (odd sizes end chunks inside code units and pairs)
            let bytes: Vec<u8> = units.iter().flat_map(|u| if enc == "utf16le" { u.to_le_bytes() } else { u.to_be_bytes() }).collect();
            let whole = XTree::build(&parse_utf16_bytes(&info.language, &bytes, usize::MAX / 2, enc == "utf16le"));
            for window in 4usize..=9 {
                crate::case!("{}", case_json("encoding-bytes", &info.name, d, json!({"enc": enc, "window": window})));
                res.transitions += 1;
                let x = XTree::build(&parse_utf16_bytes(&info.language, &bytes, window, enc == "utf16le"));
                if let Some(m) = same(&x, &whole) {
                    res.violation("utf16-byte-chunking-changes-tree", format!("{} window {}: {}", enc, window, m), case_json("encoding-bytes", &info.name, d, json!({"enc": enc, "window": window})));
                }
                if units.iter().any(|u| (0xD800..0xDC00).contains(u)) { res.nontrivial += 1; }
            }
        }
        if res.too_many() { return; }
    }
}

// ---------------------------------------------------------------- cancellation helpers
/// Drive a parse, cancelling at the callback invocations listed in `cancel_at` (global invocation counter), resuming each time.
/// Returns (tree, number of callback invocations seen, number of cancellations that took effect).
fn parse_cancelling(parser: &mut Parser, text: &[u8], old: Option<&Tree>, cancel_at: &[u64]) -> (Option<Tree>, u64, u32) {
    let mut calls = 0u64;
    let mut cancels = 0u32;
    let len = text.len();
    for _attempt in 0..(cancel_at.len() + 2) {
        let mut cb = |_: &tree_sitter::ParseState| { calls += 1; if cancel_at.contains(&calls) { ControlFlow::Break(()) } else { ControlFlow::Continue(()) } };
        let opts = ParseOptions::new().progress_callback(&mut cb);
        let t = parser.parse_with_options(&mut |i, _| if i < len { &text[i..] } else { &text[len..] }, old, Some(opts));
        if let Some(t) = t { return (Some(t), calls, cancels); }
        cancels += 1;
    }
    (None, calls, cancels)
}

fn part_cancellation(ctx: &Ctx, info: &LangInfo, big: &[Vec<u8>], other_doc: &[u8], idx: &mut usize, res: &mut ShardResult) {
    let other_ref = reference(info, other_doc);
    for d in big {
        // fresh parses
        let refx = reference(info, d);
        let mut p0 = Parser::new();
        p0.set_language(&info.language).unwrap();
        let (_, k, _) = parse_cancelling(&mut p0, d, None, &[]);
        res.count("callbacks_in_reference_runs", k);
        let pair_limit = if ctx.mini() { 6 } else if ctx.quick() { 70 } else { 150 };
        let mut plans: Vec<Vec<u64>> = (1..=k).map(|i| vec![i]).collect();
        for i in 1..=k.min(pair_limit) { for j in i + 1..=k.min(pair_limit) { plans.push(vec![i, j]); } }
        for plan in plans {
            *idx += 1;
            if !ctx.mine(*idx) { continue; }
            crate::case!("{}", case_json("cancel", &info.name, d, json!({"cancel_at": plan})));
            let mut p = Parser::new();
            p.set_language(&info.language).unwrap();
            let (t, _, cancels) = parse_cancelling(&mut p, d, None, &plan);
            res.transitions += 1 + cancels as u64;
            res.states += 1;
            match t {
                None => res.violation("resume-never-finishes", format!("plan {:?}", plan), case_json("cancel", &info.name, d, json!({"cancel_at": plan}))),
                Some(t) => {
                    let tx = XTree::build(&t);
                    // Known finding: with several stack versions alive (error recovery) a resumed parse re-enters the version loop
                    // at version 0, so the versions advance in another order than in an uninterrupted parse and the recovery can
                    // come out differently. Only when both trees report the error.
                    if let Some(m) = same(&tx, &refx) { res.violation(if tx.root_has_error() && refx.root_has_error() { "cancel-resume-changes-error-recovery-shape" } else { "cancel-resume-changes-tree" }, format!("cancel at {:?}: {}", plan, m), case_json("cancel", &info.name, d, json!({"cancel_at": plan}))); }
                    if let Err(m) = crate::xtree::check_summaries(&t) { res.violation("stale-summary-after-resume", m, case_json("cancel", &info.name, d, json!({"cancel_at": plan}))); }
                }
            }
            if cancels > 0 { res.nontrivial += 1; }
            res.outcome(cancels as u64);
            // cancel at plan[0], reset, then a different document must parse like new
            if plan.len() == 1 {
                crate::case!("{}", case_json("cancel-reset", &info.name, d, json!({"cancel_at": plan})));
                let mut p = Parser::new();
                p.set_language(&info.language).unwrap();
                let mut calls = 0u64;
                let mut cb = |_: &tree_sitter::ParseState| { calls += 1; if calls == plan[0] { ControlFlow::Break(()) } else { ControlFlow::Continue(()) } };
                let opts = ParseOptions::new().progress_callback(&mut cb);
                let len = d.len();
                let r = p.parse_with_options(&mut |i, _| if i < len { &d[i..] } else { &d[len..] }, None, Some(opts));
                res.transitions += 1;
                if r.is_none() {
                    p.reset();
                    let t2 = p.parse(other_doc, None).unwrap();
                    if let Some(m) = same(&XTree::build(&t2), &other_ref) { res.violation("reset-after-cancel-not-clean", format!("cancel at {}, reset, parse other: {}", plan[0], m), case_json("cancel-reset", &info.name, d, json!({"cancel_at": plan}))); }
                    let t3 = p.parse(d, None).unwrap();
                    if let Some(m) = same(&XTree::build(&t3), &refx) { res.violation("reset-after-cancel-not-clean", format!("cancel at {}, reset, parse other, parse same: {}", plan[0], m), case_json("cancel-reset", &info.name, d, json!({"cancel_at": plan}))); }
                }
            }
            if res.too_many() || ctx.out_of_time() { return; }
        }
        // cancel + reset after ERRONEOUS documents: a prefix of the document cut at each of a run of consecutive lengths ends
        // in an open error, where several stack versions are alive and one of them may already have been accepted when the
        // callback (consulted every 100 parser operations, hence the sweep over lengths) cancels; after reset() another
        // erroneous document must parse like new
        if d.len() > 200 {
            let mut bad_other = other_doc.to_vec();
            bad_other.extend_from_slice(b" ) ) ( ( ");
            bad_other.extend_from_slice(&other_doc[..other_doc.len().min(12)]);
            let bad_ref = reference(info, &bad_other);
            let cuts = if ctx.mini() { 8 } else if ctx.quick() { 48 } else { 256 };
            for cut in (d.len() / 2..d.len() / 2 + cuts).filter(|&c| c < d.len()) {
                *idx += 1;
                if !ctx.mine(*idx) { continue; }
                let a = &d[..cut];
                let mut p0 = Parser::new();
                p0.set_language(&info.language).unwrap();
                let (_, k, _) = parse_cancelling(&mut p0, a, None, &[]);
                for at in 1..=k {
                    crate::case!("{}", case_json("cancel-reset-erroneous", &info.name, d, json!({"cut": cut, "cancel_at": [at]})));
                    let mut p = Parser::new();
                    p.set_language(&info.language).unwrap();
                    let mut calls = 0u64;
                    let mut cb = |_: &tree_sitter::ParseState| { calls += 1; if calls == at { ControlFlow::Break(()) } else { ControlFlow::Continue(()) } };
                    let opts = ParseOptions::new().progress_callback(&mut cb);
                    let len = a.len();
                    let r = p.parse_with_options(&mut |i, _| if i < len { &a[i..] } else { &a[len..] }, None, Some(opts));
                    res.transitions += 1;
                    if r.is_none() {
                        res.nontrivial += 1;
                        p.reset();
                        let t2 = p.parse(&bad_other, None).unwrap();
                        if let Some(m) = same(&XTree::build(&t2), &bad_ref) { res.violation("reset-after-cancel-not-clean", format!("prefix of {} bytes, cancel at {}, reset, parse another erroneous document: {}", cut, at, m), case_json("cancel-reset-erroneous", &info.name, d, json!({"cut": cut, "cancel_at": [at]}))); }
                    }
                }
                res.states += 1;
                if res.too_many() || ctx.out_of_time() { return; }
            }
        }
        // re-parses with an edited old tree: cancellation must not change the incremental result
        let mut pbase = Parser::new();
        pbase.set_language(&info.language).unwrap();
        let base = pbase.parse(d, None).unwrap();
        let positions = [0usize, d.len() / 3, d.len() / 2, d.len() - 1];
        for (ei, &pos) in positions.iter().enumerate() {
            let e = Edit { start: pos, old_len: 1.min(d.len() - pos), ins: if ei % 2 == 0 { b"x".to_vec() } else { b" ".to_vec() } };
            let (nt, ie) = text::apply(d, &e);
            let mut old = base.clone();
            old.edit(&ie);
            let mut pu = Parser::new();
            pu.set_language(&info.language).unwrap();
            let (tu, k2, _) = parse_cancelling(&mut pu, &nt, Some(&old), &[]);
            let unc = XTree::build(&tu.unwrap());
            for i in 1..=k2 {
                *idx += 1;
                if !ctx.mine(*idx) { continue; }
                crate::case!("{}", case_json("cancel-incremental", &info.name, d, json!({"edit": e.to_json(), "cancel_at": [i]})));
                let mut p = Parser::new();
                p.set_language(&info.language).unwrap();
                let (t, _, cancels) = parse_cancelling(&mut p, &nt, Some(&old), &[i]);
                res.transitions += 1 + cancels as u64;
                res.states += 1;
                match t {
                    None => res.violation("resume-never-finishes", format!("incremental, cancel at {}", i), case_json("cancel-incremental", &info.name, d, json!({"edit": e.to_json(), "cancel_at": [i]}))),
                    Some(t) => if let Some(m) = same(&XTree::build(&t), &unc) { res.violation(if t.root_node().has_error() && unc.root_has_error() { "cancel-resume-changes-error-recovery-shape" } else { "cancel-resume-changes-incremental-tree" }, format!("cancel at {}: {}", i, m), case_json("cancel-incremental", &info.name, d, json!({"edit": e.to_json(), "cancel_at": [i]}))); }
                }
                if cancels > 0 { res.nontrivial += 1; }
            }
        }
    }
}

// ---------------------------------------------------------------- (iii) parser history
#[derive(Clone, Copy, Debug, PartialEq)]
enum HOp { ParseOther, OtherLanguage, RangesSetCleared, CancelReset, LoggerOn, LoggerOff, ParseEmpty, ParseUtf16 }
const HOPS: [HOp; 8] = [HOp::ParseOther, HOp::OtherLanguage, HOp::RangesSetCleared, HOp::CancelReset, HOp::LoggerOn, HOp::LoggerOff, HOp::ParseEmpty, HOp::ParseUtf16];

fn apply_hop(p: &mut Parser, op: HOp, info: &LangInfo, other: &LangInfo, other_doc: &[u8], big: &[u8]) {
    match op {
        HOp::ParseOther => { let _ = p.parse(other_doc, None); }
        HOp::OtherLanguage => { p.set_language(&other.language).unwrap(); let _ = p.parse(b"1 + (2", None); p.set_language(&info.language).unwrap(); }
        HOp::RangesSetCleared => {
            let r = Range { start_byte: 1, end_byte: 3, start_point: Point { row: 0, column: 1 }, end_point: Point { row: 0, column: 3 } };
            p.set_included_ranges(&[r]).unwrap();
            let _ = p.parse(other_doc, None);
            p.set_included_ranges(&[]).unwrap();
        }
        HOp::CancelReset => {
            let mut calls = 0;
            let mut cb = |_: &tree_sitter::ParseState| { calls += 1; if calls == 2 { ControlFlow::Break(()) } else { ControlFlow::Continue(()) } };
            let opts = ParseOptions::new().progress_callback(&mut cb);
            let len = big.len();
            let _ = p.parse_with_options(&mut |i, _| if i < len { &big[i..] } else { &big[len..] }, None, Some(opts));
            p.reset();
        }
        // (an empty document leaves the lexer at end of input at byte 0; a UTF-16 parse leaves another encoding behind)
        HOp::ParseEmpty => { let _ = p.parse(b"", None); }
        HOp::ParseUtf16 => { let units: Vec<u16> = String::from_utf8_lossy(other_doc).encode_utf16().collect(); let _ = p.parse_utf16_le(&units, None); }
        HOp::LoggerOn => { p.set_logger(Some(Box::new(|_, _| {}))); }
        HOp::LoggerOff => { p.set_logger(None); }
    }
}

fn part_history(ctx: &Ctx, info: &LangInfo, other: &LangInfo, docs: &[Vec<u8>], other_doc: &[u8], big: &[u8], idx: &mut usize, res: &mut ShardResult) {
    let mut hists: Vec<Vec<HOp>> = vec![vec![]];
    for depth in 1..=3 { crate::util::for_each_seq(HOPS.len(), depth, |ix| hists.push(ix.iter().map(|&i| HOPS[i]).collect())); }
    for d in docs {
        let refx = reference(info, d);
        for h in &hists {
            *idx += 1;
            if !ctx.mine(*idx) { continue; }
            crate::case!("{}", case_json("history", &info.name, d, json!({"history": format!("{:?}", h)})));
            let mut p = Parser::new();
            p.set_language(&info.language).unwrap();
            for &op in h { apply_hop(&mut p, op, info, other, other_doc, big); }
            let t = p.parse(d, None).unwrap();
            res.transitions += 1 + h.len() as u64;
            res.states += 1;
            if let Some(m) = same(&XTree::build(&t), &refx) { res.violation("parser-history-changes-tree", format!("history {:?}: {}", h, m), case_json("history", &info.name, d, json!({"history": format!("{:?}", h)}))); }
            if !h.is_empty() { res.nontrivial += 1; }
            if res.too_many() { return; }
        }
        if ctx.out_of_time() { return; }
    }
}

// ---------------------------------------------------------------- (iii') parser history with included ranges in force
/// The final parse uses an explicit range list L; the history installs other lists WITHOUT clearing them: the same byte
/// offsets with other points (the ranges of another document), every start shifted, the first range only, the default
/// list; each followed by a parse of another document or by nothing. Reference = fresh parser given L.
fn final_lists(d: &[u8]) -> Vec<Vec<Range>> {
    let n = d.len();
    let ok = |o: usize| o <= n && std::str::from_utf8(&d[..o]).is_ok();
    let r = |a: usize, b: usize| Range { start_byte: a, end_byte: b, start_point: text::point_at(d, a), end_point: text::point_at(d, b) };
    let mut v = vec![];
    if n >= 3 && ok(1) { v.push(vec![r(1, n)]); }
    if n >= 4 && ok(2) && ok(3) { v.push(vec![r(0, 2), r(3, n)]); v.push(vec![r(0, 2), r(2, n)]); }
    if n >= 6 && ok(n / 2) && ok(n - 1) { v.push(vec![r(0, n / 2), r(n - 1, n)]); }
    v
}
fn prior_list(l: &[Range], kind: usize) -> Vec<Range> {
    match kind {
        0 => l.iter().map(|r| Range { start_point: Point { row: r.start_point.row + 2, column: r.start_point.column + 3 }, end_point: Point { row: r.end_point.row + 2, column: r.end_point.column + 1 }, ..*r }).collect(),
        1 => l.iter().map(|r| Range { start_byte: r.start_byte + 1, end_byte: r.end_byte + 1, start_point: Point { row: r.start_point.row, column: r.start_point.column + 1 }, end_point: Point { row: r.end_point.row, column: r.end_point.column + 1 } }).collect(),
        2 => l[..1].to_vec(),
        _ => vec![],
    }
}
fn run_ranged_history(p: &mut Parser, l: &[Range], h: &[usize], other_doc: &[u8], d: &[u8]) -> Option<Tree> {
    for &step in h {
        p.set_included_ranges(&prior_list(l, step / 2)).unwrap();
        if step % 2 == 1 { let _ = p.parse(other_doc, None); }
    }
    p.set_included_ranges(l).unwrap();
    p.parse(d, None)
}
fn check_ranged_history(info: &LangInfo, l: &[Range], h: &[usize], other_doc: &[u8], d: &[u8]) -> Option<String> {
    let mut f = Parser::new();
    f.set_language(&info.language).unwrap();
    f.set_included_ranges(l).unwrap();
    let rt = f.parse(d, None).unwrap();
    let mut p = Parser::new();
    p.set_language(&info.language).unwrap();
    let t = run_ranged_history(&mut p, l, h, other_doc, d).unwrap();
    if let Some(m) = same(&XTree::build(&t), &XTree::build(&rt)) { return Some(m); }
    if t.included_ranges() != l { return Some(format!("tree reports ranges {:?}, parsed with {:?}", t.included_ranges(), l)); }
    if p.included_ranges() != l { return Some(format!("parser reports ranges {:?}, given {:?}", p.included_ranges(), l)); }
    None
}
fn part_history_ranges(ctx: &Ctx, info: &LangInfo, docs: &[Vec<u8>], other_doc: &[u8], idx: &mut usize, res: &mut ShardResult) {
    let mut hists: Vec<Vec<usize>> = vec![vec![]];
    for depth in 1..=2 { crate::util::for_each_seq(8, depth, |ix| hists.push(ix.to_vec())); }
    for d in docs {
        for (li, l) in final_lists(d).iter().enumerate() {
            for h in &hists {
                *idx += 1;
                if !ctx.mine(*idx) { continue; }
                let cj = case_json("history-ranges", &info.name, d, json!({"list": li, "history": h}));
                crate::case!("{}", cj);
                res.transitions += 2 + 2 * h.len() as u64;
                res.states += 1;
                if let Some(m) = check_ranged_history(info, l, h, other_doc, d) { res.violation("parser-history-changes-tree", format!("ranged history {:?} (step = 2*kind + parsed; kinds: other points, shifted, first only, default), final list {:?}: {}", h, l, m), cj); }
                if !h.is_empty() { res.nontrivial += 1; }
                if res.too_many() { return; }
            }
        }
        if ctx.out_of_time() { return; }
    }
}

pub fn big_docs(name: &str) -> Vec<Vec<u8>> {
    let v: Vec<String> = match name {
        "arith" => vec![format!("{}1", "1+2*x^(3-y)+".repeat(40)), format!("f({}1)", "1,".repeat(1500))],
        "stmts" => vec!["let a = f(x, 1) + 2 * b; # c\n".repeat(60), "a;".repeat(1500), format!("{}a;", "#c\n".repeat(200)), "if a { b; } else { c; }\n".repeat(40)],
        "jsonish" => vec![format!("[{}1]", "1,".repeat(1500)), format!("{}1{}", "{\"k\":[".repeat(40), "]}".repeat(40))],
        "glr" => vec!["a * b;\nc d;\ne(f);\n".repeat(60)],
        "lexla" => vec!["ab abcd abcx 1.5 1..5 /ab/ / --> .. ...\n".repeat(40)],
        "indent" => vec!["a:\n b:\n  c d\n  e\n f\ng\n".repeat(40)],
        "pstring" => vec!["%(a(b)#{x %[y]}c) w 1 (z)\n".repeat(50)],
        "lookfar" => vec!["a-bc-a! bc a-bc bc-a-bc-a-bc !\n".repeat(40)],
        "resv" => vec!["var a = { if: b.if, c: (d), };\nif (a.if) { a.b; }\n".repeat(30)],
        "colm" => vec!["ab ! cd @ (ef ! @)\n".repeat(40)],
        "modal" => vec!["a [b ! c] 1 ! [d]\n".repeat(40)],
        "docol" => vec!["a = do b\n       c\nd\n".repeat(30)],
        // (the second document is erroneous throughout: cancellation while several stack versions are alive)
        "nlctx" => vec!["x ab;\ny\ncd;\nz a ef;\n".repeat(40), "nlctx\n".repeat(40)],
        _ => vec![format!("{}\n", name).repeat(40)],
    };
    v.into_iter().map(|s| s.into_bytes()).collect()
}

pub fn worker(ctx: &Ctx, res: &mut ShardResult) {
    let zoo = crate::zoo::core_zoo();
    let arith = build_info(&crate::zoo::arith());
    let mut idx = 0usize;
    for z in zoo.iter() {
        let info = build_info(z);
        let k = if ctx.mini() { 1 } else if ctx.quick() { 3 } else { 4 };
        let docs = crate::docs::docs(z, k);
        let big = big_docs(z.name);
        part_chunkings(ctx, &info, &docs, &big, &mut idx, res);
        part_chunkings_with_ranges(ctx, &info, &docs, &mut idx, res);
        part_encodings(ctx, &info, &docs, &mut idx, res);
        let other_doc = z.seeds.iter().filter(|s| s.len() > 3).next().map(|s| s.as_bytes().to_vec()).unwrap_or_default();
        part_cancellation(ctx, &info, &big, &other_doc, &mut idx, res);
        let hist_docs: Vec<Vec<u8>> = z.seeds.iter().take(if ctx.mini() { 1 } else if ctx.quick() { 6 } else { 20 }).map(|s| s.as_bytes().to_vec()).collect();
        part_history(ctx, &info, &arith, &hist_docs, &other_doc, &big[0], &mut idx, res);
        part_history_ranges(ctx, &info, &hist_docs, &other_doc, &mut idx, res);
        if res.too_many() || ctx.out_of_time() { if ctx.out_of_time() { res.caps.push("wall-clock budget reached".into()); } return; }
    }
}

pub fn replay(case: &Value) -> Vec<String> {
    let case = if case.get("kind").and_then(|k| k.as_str()) == Some("crash") { &case["case"] } else { case };
    let name = case["lang"].as_str().unwrap_or("");
    let Some(z) = crate::zoo::by_name(name) else { return vec![format!("unknown language {}", name)] };
    let info = build_info(&z);
    let d = crate::util::bytes_from_json(&case["doc"]);
    let refx = reference(&info, &d);
    let mut p = Parser::new();
    p.set_language(&info.language).unwrap();
    let x = &case["x"];
    match case["part"].as_str().unwrap_or("") {
        "chunking" => {
            let splits: Vec<usize> = x["splits"].as_array().unwrap().iter().map(|v| v.as_u64().unwrap() as usize).collect();
            let t = parse_with_splits(&mut p, &d, &splits, None).unwrap();
            println!("chunked: {}\nwhole:   {}", t.root_node().to_sexp(), refx.sexp(&info.language));
            same(&XTree::build(&t), &refx).into_iter().collect()
        }
        "chunk-size" => {
            let k = x["size"].as_u64().unwrap() as usize;
            let splits: Vec<usize> = (1..d.len()).filter(|p| p % k == 0).collect();
            let t = parse_with_splits(&mut p, &d, &splits, None).unwrap();
            same(&XTree::build(&t), &refx).into_iter().collect()
        }
        "cancel" => {
            let plan: Vec<u64> = x["cancel_at"].as_array().unwrap().iter().map(|v| v.as_u64().unwrap()).collect();
            let (t, calls, cancels) = parse_cancelling(&mut p, &d, None, &plan);
            println!("callbacks {} cancellations {}", calls, cancels);
            if let (Ok(dir), Some(t)) = (std::env::var("VF_DUMP_DIR"), t.as_ref()) {
                let mut p2 = Parser::new();
                p2.set_language(&info.language).unwrap();
                let whole = p2.parse(&d, None).unwrap();
                let _ = std::fs::write(format!("{}/cancelled.dump", dir), crate::xtree::internal_dump(t));
                let _ = std::fs::write(format!("{}/whole.dump", dir), crate::xtree::internal_dump(&whole));
            }
            match t { None => vec!["resume never finishes".into()], Some(t) => same(&XTree::build(&t), &refx).into_iter().collect() }
        }
        "encoding" => {
            let st = std::str::from_utf8(&d).unwrap();
            let (units, _) = utf16_map(st);
            let enc = x["enc"].as_str().unwrap();
            let data: Vec<u16> = units.iter().map(|u| if enc == "utf16le" { u.to_le() } else { u.to_be() }).collect();
            let t = if enc == "utf16le" { p.parse_utf16_le(&data, None) } else { p.parse_utf16_be(&data, None) }.unwrap();
            println!("{}: {}
utf8:    {}", enc, t.root_node().to_sexp(), refx.sexp(&info.language));
            let x16 = XTree::build(&t);
            for i in 0..x16.nodes.len() { println!("  {}", x16.brief(i)); }
            if x16.nodes.len() != refx.nodes.len() { vec!["node count differs".into()] } else { vec![] }
        }
        "encoding-bytes" => {
            let st = std::str::from_utf8(&d).unwrap();
            let (units, _) = utf16_map(st);
            let le = x["enc"].as_str().unwrap() == "utf16le";
            let window = x["window"].as_u64().unwrap() as usize;
            let bytes: Vec<u8> = units.iter().flat_map(|u| if le { u.to_le_bytes() } else { u.to_be_bytes() }).collect();
            let whole = XTree::build(&parse_utf16_bytes(&info.language, &bytes, usize::MAX / 2, le));
            let got = XTree::build(&parse_utf16_bytes(&info.language, &bytes, window, le));
            println!("whole buffer:  {}\nwindow of {}: {}", whole.sexp(&info.language), window, got.sexp(&info.language));
            match same(&got, &whole) { Some(m) => vec![format!("utf16-byte-chunking-changes-tree: {}", m)], None => vec![] }
        }
        "chunking-ranges" => {
            let splits: Vec<usize> = x["splits"].as_array().unwrap().iter().map(|v| v.as_u64().unwrap() as usize).collect();
            let rl: Vec<(usize, usize)> = x["ranges"].as_array().unwrap().iter().map(|r| (r[0].as_u64().unwrap() as usize, r[1].as_u64().unwrap() as usize)).collect();
            let rs: Vec<Range> = rl.iter().map(|&(s, e)| crate::checks::c13::mk_range(&d, s, e)).collect();
            p.set_included_ranges(&rs).unwrap();
            let whole = XTree::build(&p.parse(&d, None).unwrap());
            let t = parse_with_splits(&mut p, &d, &splits, None).unwrap();
            println!("ranges {:?}\nchunked {:?}: {}\nwhole:   {}", rl, splits, XTree::build(&t).sexp_pos(&info.language), whole.sexp_pos(&info.language));
            same(&XTree::build(&t), &whole).into_iter().map(|m| format!("chunking-changes-tree-with-ranges: {}", m)).collect()
        }
        "partition" => {
            let sp = x["splits"][0].as_u64().unwrap_or(0) as usize;
            let len = d.len();
            let t = p.parse_with_options(&mut |i, _| if i < len { if i < sp { &d[i..sp] } else { &d[i..] } } else { &d[len..] }, None, None).unwrap();
            println!("partition at {}: {}\nwhole:          {}", sp, t.root_node().to_sexp(), refx.sexp(&info.language));
            same(&XTree::build(&t), &refx).into_iter().map(|m| format!("partition-chunk-splits-character: {}", m)).collect()
        }
        "history" => {
            // "[RangesSetCleared, LoggerOn, CancelReset]"
            let hs: Vec<HOp> = x["history"].as_str().unwrap_or("").trim_matches(|c| c == '[' || c == ']').split(',').filter_map(|t| match t.trim() { "ParseOther" => Some(HOp::ParseOther), "OtherLanguage" => Some(HOp::OtherLanguage), "RangesSetCleared" => Some(HOp::RangesSetCleared), "CancelReset" => Some(HOp::CancelReset), "LoggerOn" => Some(HOp::LoggerOn), "LoggerOff" => Some(HOp::LoggerOff), "ParseEmpty" => Some(HOp::ParseEmpty), "ParseUtf16" => Some(HOp::ParseUtf16), _ => None }).collect();
            let arith = build_info(&crate::zoo::arith());
            let other_doc = z.seeds.iter().filter(|s| s.len() > 3).next().map(|s| s.as_bytes().to_vec()).unwrap_or_default();
            let big = big_docs(z.name);
            for &op in &hs { apply_hop(&mut p, op, &info, &arith, &other_doc, &big[0]); }
            let t = p.parse(&d, None).unwrap();
            println!("after {:?}: {}\nfresh parser:   {}", hs, t.root_node().to_sexp(), refx.sexp(&info.language));
            same(&XTree::build(&t), &refx).into_iter().map(|m| format!("parser-history-changes-tree: {}", m)).collect()
        }
        "history-ranges" => {
            let other_doc = z.seeds.iter().filter(|s| s.len() > 3).next().map(|s| s.as_bytes().to_vec()).unwrap_or_default();
            let li = x["list"].as_u64().unwrap_or(0) as usize;
            let h: Vec<usize> = x["history"].as_array().map(|a| a.iter().filter_map(|v| v.as_u64().map(|u| u as usize)).collect()).unwrap_or_default();
            let lists = final_lists(&d);
            println!("final list {:?}, history {:?}", lists[li], h);
            check_ranged_history(&info, &lists[li], &h, &other_doc, &d).into_iter().map(|m| format!("parser-history-changes-tree: {}", m)).collect()
        }
        "cancel-reset" => {
            let at = x["cancel_at"][0].as_u64().unwrap_or(1);
            let other_doc = z.seeds.iter().filter(|s| s.len() > 3).next().map(|s| s.as_bytes().to_vec()).unwrap_or_default();
            let other_ref = reference(&info, &other_doc);
            let mut calls = 0u64;
            let mut cb = |_: &tree_sitter::ParseState| { calls += 1; if calls == at { ControlFlow::Break(()) } else { ControlFlow::Continue(()) } };
            let opts = ParseOptions::new().progress_callback(&mut cb);
            let len = d.len();
            let r = p.parse_with_options(&mut |i, _| if i < len { &d[i..] } else { &d[len..] }, None, Some(opts));
            let mut msgs = vec![];
            if r.is_none() {
                p.reset();
                let t2 = p.parse(&other_doc, None).unwrap();
                if let Some(m) = same(&XTree::build(&t2), &other_ref) { msgs.push(format!("reset-after-cancel-not-clean: other document: {}", m)); }
                let t3 = p.parse(&d, None).unwrap();
                if let Some(m) = same(&XTree::build(&t3), &refx) { msgs.push(format!("reset-after-cancel-not-clean: same document: {}", m)); }
            } else { println!("the parse finished before callback {}", at); }
            msgs
        }
        "cancel-incremental" => {
            let e = Edit::from_json(&x["edit"]);
            let at: Vec<u64> = x["cancel_at"].as_array().map(|a| a.iter().filter_map(|v| v.as_u64()).collect()).unwrap_or_default();
            let base = p.parse(&d, None).unwrap();
            let (nt, ie) = text::apply(&d, &e);
            let mut old = base.clone();
            old.edit(&ie);
            let mut pu = Parser::new();
            pu.set_language(&info.language).unwrap();
            let (tu, k2, _) = parse_cancelling(&mut pu, &nt, Some(&old), &[]);
            let unc = XTree::build(&tu.unwrap());
            let mut pc = Parser::new();
            pc.set_language(&info.language).unwrap();
            let (t, _, cancels) = parse_cancelling(&mut pc, &nt, Some(&old), &at);
            println!("uncancelled re-parse used {} callbacks; cancelled at {:?} ({} cancellations)", k2, at, cancels);
            match t { None => vec!["resume-never-finishes".into()], Some(t) => same(&XTree::build(&t), &unc).into_iter().map(|m| format!("cancel-resume-changes-incremental-tree: {}", m)).collect() }
        }
        other => vec![format!("unknown part '{}'", other)],
    }
}
