//! Explicit tree built from ONE TreeCursor depth-first walk. All oracles compare XTrees.
#![allow(dead_code)]
use tree_sitter::{Node, Point, Tree};

#[derive(Clone, Debug, PartialEq, Eq)]
pub struct XNode {
    pub kind_id: u16,
    pub grammar_id: u16,
    pub named: bool,
    pub extra: bool,
    pub missing: bool,
    pub is_error: bool,
    pub has_error: bool,
    pub has_changes: bool,
    pub field_id: u16,
    pub start: usize,
    pub end: usize,
    pub sp: Point,
    pub ep: Point,
    pub parent: Option<usize>,
    pub children: Vec<usize>,
    pub depth: u32,
    pub adv_child_count: usize,
    pub adv_named_child_count: usize,
    pub adv_descendant_count: usize,
    pub parse_state: u16,
    pub id: usize,
    /// bytes examined by the lexer beyond the node's end (hook H2)
    pub lookahead: u32,
    /// MISSING leaves in this node's subtree that are not visible on their own (hook H2); they count for has_error
    pub hidden_missing: u32,
}

#[derive(Clone, Debug)]
pub struct XTree { pub nodes: Vec<XNode> }

impl XTree {
    pub fn build(tree: &Tree) -> XTree { Self::build_from(tree.root_node()) }

    pub fn build_from(root: Node) -> XTree {
        let mut nodes: Vec<XNode> = Vec::new();
        let mut cursor = root.walk();
        let mut stack: Vec<usize> = Vec::new();
        loop {
            let n = cursor.node();
            let idx = nodes.len();
            let parent = stack.last().copied();
            nodes.push(XNode {
                kind_id: n.kind_id(),
                grammar_id: n.grammar_id(),
                named: n.is_named(),
                extra: n.is_extra(),
                missing: n.is_missing(),
                is_error: n.is_error(),
                has_error: n.has_error(),
                has_changes: n.has_changes(),
                field_id: cursor.field_id().map(|f| f.get()).unwrap_or(0),
                start: n.start_byte(),
                end: n.end_byte(),
                sp: n.start_position(),
                ep: n.end_position(),
                parent,
                children: Vec::new(),
                depth: stack.len() as u32,
                adv_child_count: n.child_count() as usize,
                adv_named_child_count: n.named_child_count(),
                adv_descendant_count: n.descendant_count(),
                parse_state: n.parse_state(),
                id: n.id(),
                lookahead: unsafe { ts_verif_node_lookahead_bytes(n.into_raw()) },
                hidden_missing: 0,
            });
            if let Some(p) = parent { nodes[p].children.push(idx); }
            if cursor.goto_first_child() { stack.push(idx); continue; }
            loop {
                if stack.is_empty() {
                    // hidden MISSING tokens are rare: one query at the root, and a second walk only if there are any
                    if unsafe { ts_verif_node_hidden_missing(root.into_raw()) } > 0 {
                        let mut c2 = root.walk();
                        let mut k = 0usize;
                        'walk: loop {
                            nodes[k].hidden_missing = unsafe { ts_verif_node_hidden_missing(c2.node().into_raw()) };
                            k += 1;
                            if c2.goto_first_child() { continue; }
                            loop { if c2.goto_next_sibling() { break; } if !c2.goto_parent() { break 'walk; } }
                        }
                    }
                    return XTree { nodes };
                }
                if cursor.goto_next_sibling() { break; }
                let ok = cursor.goto_parent();
                assert!(ok, "cursor.goto_parent failed below the root");
                stack.pop();
            }
        }
    }

    pub fn has_error_or_missing(&self) -> bool { self.nodes.iter().any(|n| n.is_error || n.missing) || self.nodes[0].hidden_missing > 0 }
    pub fn root_has_error(&self) -> bool { self.nodes[0].has_error }

    /// Number of nodes in the subtree rooted at i (including i).
    pub fn subtree_size(&self, i: usize) -> usize {
        let mut c = 0;
        let mut stack = vec![i];
        while let Some(k) = stack.pop() { c += 1; stack.extend_from_slice(&self.nodes[k].children); }
        c
    }

    /// Compare the visible form (what C01 fixes): kinds, nesting, fields, byte/point ranges, named/extra/missing.
    pub fn diff_visible(&self, other: &XTree) -> Option<String> {
        if self.nodes.len() != other.nodes.len() {
            // find first divergence for the message
        }
        let n = self.nodes.len().min(other.nodes.len());
        for i in 0..n {
            let a = &self.nodes[i];
            let b = &other.nodes[i];
            let same = a.kind_id == b.kind_id && a.named == b.named && a.extra == b.extra && a.missing == b.missing
                && a.field_id == b.field_id && a.start == b.start && a.end == b.end && a.sp == b.sp && a.ep == b.ep
                && a.children.len() == b.children.len() && a.depth == b.depth && a.is_error == b.is_error;
            if !same {
                return Some(format!("node #{}: {} vs {}", i, self.brief(i), other.brief(i)));
            }
        }
        if self.nodes.len() != other.nodes.len() {
            return Some(format!("node count {} vs {}", self.nodes.len(), other.nodes.len()));
        }
        None
    }

    pub fn brief(&self, i: usize) -> String {
        let a = &self.nodes[i];
        format!(
            "[kind={} named={} extra={} missing={} err={} field={} {}..{} ({},{})-({},{}) nch={} depth={}]",
            a.kind_id, a.named, a.extra, a.missing, a.is_error, a.field_id, a.start, a.end, a.sp.row, a.sp.column, a.ep.row, a.ep.column,
            a.children.len(), a.depth
        )
    }

    /// Our own S-expression rendering (kinds via the language), for messages and C06.
    pub fn sexp(&self, lang: &tree_sitter::Language) -> String {
        let mut s = String::new();
        self.sexp_rec(lang, 0, &mut s);
        s
    }
    /// S-expression with byte ranges on every node, for replay output.
    pub fn sexp_pos(&self, lang: &tree_sitter::Language) -> String {
        fn rec(x: &XTree, lang: &tree_sitter::Language, i: usize, out: &mut String) {
            let n = &x.nodes[i];
            let kind = lang.node_kind_for_id(n.kind_id).unwrap_or("?");
            out.push_str(&format!("({:?}{}@{}..{}", kind, if n.missing { "!MISSING" } else { "" }, n.start, n.end));
            for &c in &n.children { out.push(' '); rec(x, lang, c, out); }
            out.push(')');
        }
        let mut s = String::new();
        rec(self, lang, 0, &mut s);
        s
    }
    fn sexp_rec(&self, lang: &tree_sitter::Language, i: usize, out: &mut String) {
        let n = &self.nodes[i];
        let kind = lang.node_kind_for_id(n.kind_id).unwrap_or("?");
        if n.missing { out.push_str(&format!("(MISSING {})", kind)); return; }
        if !n.named { out.push_str(&format!("{:?}", kind)); return; }
        out.push('(');
        out.push_str(kind);
        for &c in &self.nodes[i].children {
            out.push(' ');
            let f = self.nodes[c].field_id;
            if f != 0 { out.push_str(lang.field_name_for_id(f).unwrap_or("?")); out.push_str(": "); }
            self.sexp_rec(lang, c, out);
        }
        out.push(')');
    }
}

// --- hook H2 FFI ---------------------------------------------------------------------------
extern "C" {
    fn ts_verif_hash_tree(tree: *const std::ffi::c_void) -> u64;
    fn ts_verif_dump_tree(tree: *const std::ffi::c_void) -> *mut std::ffi::c_char;
    fn ts_verif_free(p: *mut std::ffi::c_char);
    fn ts_verif_check_tree(tree: *const std::ffi::c_void, err: *mut std::ffi::c_char, errlen: usize) -> i32;
    fn ts_verif_root_ref_count(tree: *const std::ffi::c_void) -> u32;
    fn ts_verif_node_lookahead_bytes(node: tree_sitter::ffi::TSNode) -> u32;
    fn ts_verif_node_hidden_missing(node: tree_sitter::ffi::TSNode) -> u32;
}

pub fn raw_tree(tree: &Tree) -> *const std::ffi::c_void {
    tree.root_node().into_raw().tree as *const std::ffi::c_void
}
pub fn internal_hash(tree: &Tree) -> u64 { unsafe { ts_verif_hash_tree(raw_tree(tree)) } }
pub fn internal_dump(tree: &Tree) -> String {
    unsafe {
        let p = ts_verif_dump_tree(raw_tree(tree));
        let s = std::ffi::CStr::from_ptr(p).to_string_lossy().to_string();
        ts_verif_free(p);
        s
    }
}
pub fn check_summaries(tree: &Tree) -> Result<(), String> {
    let mut buf = vec![0u8; 512];
    let r = unsafe { ts_verif_check_tree(raw_tree(tree), buf.as_mut_ptr() as *mut _, buf.len()) };
    if r == 0 { Ok(()) } else {
        let end = buf.iter().position(|&b| b == 0).unwrap_or(buf.len());
        Err(String::from_utf8_lossy(&buf[..end]).to_string())
    }
}
pub fn root_ref_count(tree: &Tree) -> u32 { unsafe { ts_verif_root_ref_count(raw_tree(tree)) } }
