//! Reference text model: positions, edits. Written from the API documentation only.
#![allow(dead_code)]
use tree_sitter::{InputEdit, Point};

/// (row, column) of byte offset `off`: rows = number of '\n' before it, column = bytes since the last '\n'.
pub fn point_at(bytes: &[u8], off: usize) -> Point {
    let off = off.min(bytes.len());
    let mut row = 0;
    let mut last = 0;
    for (i, &b) in bytes[..off].iter().enumerate() {
        if b == b'\n' { row += 1; last = i + 1; }
    }
    Point { row, column: off - last }
}

pub struct LineTable { starts: Vec<usize>, len: usize }
impl LineTable {
    pub fn new(bytes: &[u8]) -> Self {
        let mut starts = vec![0];
        for (i, &b) in bytes.iter().enumerate() { if b == b'\n' { starts.push(i + 1); } }
        LineTable { starts, len: bytes.len() }
    }
    pub fn point(&self, off: usize) -> Point {
        let off = off.min(self.len);
        let row = match self.starts.binary_search(&off) { Ok(i) => i, Err(i) => i - 1 };
        Point { row, column: off - self.starts[row] }
    }
    pub fn offset(&self, p: Point) -> Option<usize> {
        let s = *self.starts.get(p.row)?;
        let end = self.starts.get(p.row + 1).map(|e| e - 1).unwrap_or(self.len);
        if s + p.column <= end { Some(s + p.column) } else { None }
    }
    pub fn rows(&self) -> usize { self.starts.len() }
}

#[derive(Clone, Debug, PartialEq, Eq, Hash)]
pub struct Edit { pub start: usize, pub old_len: usize, pub ins: Vec<u8> }

impl Edit {
    pub fn describe(&self) -> String {
        format!("@{} -{} +{:?}", self.start, self.old_len, String::from_utf8_lossy(&self.ins))
    }
    pub fn to_json(&self) -> serde_json::Value {
        serde_json::json!({"start": self.start, "old_len": self.old_len, "ins": crate::util::bytes_json(&self.ins)})
    }
    pub fn from_json(v: &serde_json::Value) -> Edit {
        Edit { start: v["start"].as_u64().unwrap() as usize, old_len: v["old_len"].as_u64().unwrap() as usize, ins: crate::util::bytes_from_json(&v["ins"]) }
    }
}

pub fn apply(old: &[u8], e: &Edit) -> (Vec<u8>, InputEdit) {
    assert!(e.start + e.old_len <= old.len());
    let mut new = Vec::with_capacity(old.len() + e.ins.len());
    new.extend_from_slice(&old[..e.start]);
    new.extend_from_slice(&e.ins);
    new.extend_from_slice(&old[e.start + e.old_len..]);
    let ie = InputEdit {
        start_byte: e.start,
        old_end_byte: e.start + e.old_len,
        new_end_byte: e.start + e.ins.len(),
        start_position: point_at(old, e.start),
        old_end_position: point_at(old, e.start + e.old_len),
        new_end_position: point_at(&new, e.start + e.ins.len()),
    };
    (new, ie)
}

/// Map an old byte offset to the new text (None if inside the replaced region).
pub fn map_offset(e: &Edit, off: usize) -> Option<usize> {
    if off <= e.start { Some(off) }
    else if off >= e.start + e.old_len { Some(off - e.old_len + e.ins.len()) }
    else { None }
}
