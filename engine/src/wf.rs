//! C02 oracle: well-formedness of a tree with respect to the source bytes only.
#![allow(dead_code)]
use crate::text::LineTable;
use crate::xtree::XTree;
use std::collections::HashSet;
use tree_sitter::{Language, Range};

pub struct LangInfo {
    pub name: String,
    pub language: Language,
    /// anonymous node kinds that are string literals of the grammar (and are not also alias values)
    pub literal_kinds: HashSet<String>,
    pub skippable: Vec<u8>,
    /// true if the grammar has no hidden non-empty terminals, so that every non-skippable byte must lie in a visible leaf
    pub strict_tiling: bool,
}

fn collect_strings(v: &serde_json::Value, lits: &mut HashSet<String>, aliases: &mut HashSet<String>) {
    match v {
        serde_json::Value::Object(o) => {
            match o.get("type").and_then(|t| t.as_str()) {
                Some("STRING") => { if let Some(s) = o.get("value").and_then(|s| s.as_str()) { lits.insert(s.to_string()); } }
                Some("ALIAS") => { if let Some(s) = o.get("value").and_then(|s| s.as_str()) { aliases.insert(s.to_string()); } }
                _ => {}
            }
            for (_, x) in o { collect_strings(x, lits, aliases); }
        }
        serde_json::Value::Array(a) => for x in a { collect_strings(x, lits, aliases); },
        _ => {}
    }
}

impl LangInfo {
    pub fn new(name: &str, language: &Language, grammar: &serde_json::Value, skippable: &[u8], strict_tiling: bool) -> Self {
        let mut lits = HashSet::new();
        let mut aliases = HashSet::new();
        collect_strings(&grammar["rules"], &mut lits, &mut aliases);
        // a rule whose name equals a literal would make the kind ambiguous; aliases likewise
        let lits: HashSet<String> = lits.into_iter().filter(|l| !aliases.contains(l)).collect();
        LangInfo { name: name.to_string(), language: language.clone(), literal_kinds: lits, skippable: skippable.to_vec(), strict_tiling }
    }
}

pub struct Finding { pub fingerprint: String, pub msg: String }

fn f(fp: &str, msg: String) -> Finding { Finding { fingerprint: fp.to_string(), msg } }

/// All checks are derived from `text` alone. `ranges`: the included ranges the tree was parsed with (None = whole document).
pub fn check(info: &LangInfo, text: &[u8], xt: &XTree, ranges: Option<&[Range]>) -> Vec<Finding> {
    let mut out = Vec::new();
    let lt = LineTable::new(text);
    let n = &xt.nodes;
    let root = &n[0];
    if root.end > text.len() || root.start > root.end {
        out.push(f("root-outside-text", format!("root {}..{} text len {}", root.start, root.end, text.len())));
        return out;
    }
    let mut covered = vec![false; text.len()];
    // bottom-up summaries in one pass (the explicit tree is in pre-order: children have larger indices than their parent)
    let mut sub_err_of: Vec<bool> = n.iter().map(|x| x.is_error || x.missing || x.hidden_missing > 0).collect();
    let mut size_of: Vec<usize> = vec![1; n.len()];
    for i in (0..n.len()).rev() {
        for &c in &n[i].children { if sub_err_of[c] { sub_err_of[i] = true; } size_of[i] += size_of[c]; }
    }
    for (i, nd) in n.iter().enumerate() {
        if nd.start > nd.end || nd.end > text.len() {
            out.push(f("node-outside-text", format!("node #{} {}", i, xt.brief(i))));
            return out;
        }
        if lt.point(nd.start) != nd.sp { out.push(f("start-point", format!("node #{} {} expected start point {:?}", i, xt.brief(i), lt.point(nd.start)))); }
        if lt.point(nd.end) != nd.ep { out.push(f("end-point", format!("node #{} {} expected end point {:?}", i, xt.brief(i), lt.point(nd.end)))); }
        let mut prev_end = nd.start;
        for (k, &c) in nd.children.iter().enumerate() {
            let ch = &n[c];
            if ch.start < nd.start || ch.end > nd.end { out.push(f("child-outside-parent", format!("child #{} {} of #{} {}", c, xt.brief(c), i, xt.brief(i)))); }
            if ch.start < prev_end { out.push(f("children-overlap", format!("child {} (#{}) {} starts before previous sibling's end {} in #{}", k, c, xt.brief(c), prev_end, i))); }
            prev_end = ch.end.max(prev_end);
        }
        if nd.missing && nd.start != nd.end { out.push(f("missing-not-empty", format!("node #{} {}", i, xt.brief(i)))); }
        // has_error exactly when it or a descendant is ERROR or MISSING
        let sub_err = sub_err_of[i];
        if nd.has_error != sub_err {
            let fp = if nd.is_error && nd.children.is_empty() { "has-error-false-on-error-leaf" } else { "has-error-mismatch" };
            out.push(f(fp, format!("node #{} {} has_error={} but subtree contains ERROR/MISSING={}", i, xt.brief(i), nd.has_error, sub_err)));
        }
        if nd.adv_child_count != nd.children.len() { out.push(f("child-count", format!("node #{} child_count()={} enumerated={}", i, nd.adv_child_count, nd.children.len()))); }
        let named = nd.children.iter().filter(|&&c| n[c].named).count();
        if nd.adv_named_child_count != named { out.push(f("named-child-count", format!("node #{} named_child_count()={} enumerated={}", i, nd.adv_named_child_count, named))); }
        let sz = size_of[i];
        if nd.adv_descendant_count != sz { out.push(f("descendant-count", format!("node #{} descendant_count()={} enumerated={}", i, nd.adv_descendant_count, sz))); }
        if nd.children.is_empty() {
            for b in nd.start..nd.end { covered[b] = true; }
            if !nd.named && !nd.missing && !nd.is_error && nd.kind_id == nd.grammar_id {
                if let Some(kind) = info.language.node_kind_for_id(nd.kind_id) {
                    // with included ranges a token may run across an excluded gap: its text is what the included parts spell
                    let covered_text: Vec<u8> = match ranges {
                        Some(rs) => (nd.start..nd.end).filter(|&b| rs.iter().any(|r| r.start_byte <= b && b < r.end_byte)).map(|b| text[b]).collect(),
                        None => text[nd.start..nd.end].to_vec(),
                    };
                    if info.literal_kinds.contains(kind) && covered_text != kind.as_bytes() {
                        out.push(f("literal-token-text", format!("anonymous node #{} kind {:?} covers {:?}", i, kind, String::from_utf8_lossy(&text[nd.start..nd.end]))));
                    }
                }
            }
        }
        if out.len() > 8 { return out; }
    }
    if info.strict_tiling {
        for (b, &c) in covered.iter().enumerate() {
            if c { continue; }
            if info.skippable.contains(&text[b]) { continue; }
            if b < 3 && text.starts_with(b"\xEF\xBB\xBF") { continue; }
            if let Some(rs) = ranges {
                if !rs.iter().any(|r| r.start_byte <= b && b < r.end_byte) { continue; }
            }
            out.push(f("byte-not-in-leaf", format!("byte {} ({:#04x}) is neither skippable nor inside a leaf", b, text[b])));
            break;
        }
    }
    out
}
