//! A tiny grammar DSL that produces tree-sitter `grammar.json` values.
#![allow(dead_code)]
use serde_json::{json, Map, Value};

pub fn sym(n: &str) -> Value { json!({"type":"SYMBOL","name":n}) }
pub fn s(v: &str) -> Value { json!({"type":"STRING","value":v}) }
/// a pattern with regex flags (tree-sitter honours `i`)
pub fn pat_flags(v: &str, flags: &str) -> Value { json!({"type": "PATTERN", "value": v, "flags": flags}) }
pub fn pat(v: &str) -> Value { json!({"type":"PATTERN","value":v}) }
pub fn blank() -> Value { json!({"type":"BLANK"}) }
pub fn seq(m: Vec<Value>) -> Value { json!({"type":"SEQ","members":m}) }
pub fn choice(m: Vec<Value>) -> Value { json!({"type":"CHOICE","members":m}) }
pub fn rep(c: Value) -> Value { json!({"type":"REPEAT","content":c}) }
pub fn rep1(c: Value) -> Value { json!({"type":"REPEAT1","content":c}) }
pub fn opt(c: Value) -> Value { choice(vec![c, blank()]) }
pub fn field(n: &str, c: Value) -> Value { json!({"type":"FIELD","name":n,"content":c}) }
pub fn alias(c: Value, v: &str, named: bool) -> Value { json!({"type":"ALIAS","content":c,"named":named,"value":v}) }
pub fn token(c: Value) -> Value { json!({"type":"TOKEN","content":c}) }
pub fn imm(c: Value) -> Value { json!({"type":"IMMEDIATE_TOKEN","content":c}) }
pub fn prec(n: i32, c: Value) -> Value { json!({"type":"PREC","value":n,"content":c}) }
pub fn prec_left(n: i32, c: Value) -> Value { json!({"type":"PREC_LEFT","value":n,"content":c}) }
pub fn prec_right(n: i32, c: Value) -> Value { json!({"type":"PREC_RIGHT","value":n,"content":c}) }
pub fn prec_dyn(n: i32, c: Value) -> Value { json!({"type":"PREC_DYNAMIC","value":n,"content":c}) }
/// `content` lexed in the reserved-word context `ctx`
pub fn reserved(ctx: &str, content: Value) -> Value { json!({"type": "RESERVED", "context_name": ctx, "content": content}) }
/// precedence by name (see G::precedence_order)
pub fn prec_named_left(name: &str, c: Value) -> Value { json!({"type":"PREC_LEFT","value":name,"content":c}) }
pub fn sep1(sep: &str, c: Value) -> Value { seq(vec![c.clone(), rep(seq(vec![s(sep), c]))]) }
pub fn sep(sepv: &str, c: Value) -> Value { opt(sep1(sepv, c)) }

#[derive(Clone, Default)]
pub struct G {
    pub name: String,
    pub rules: Vec<(String, Value)>,
    pub extras: Option<Vec<Value>>,
    pub conflicts: Vec<Vec<String>>,
    pub externals: Vec<Value>,
    pub inline: Vec<String>,
    pub supertypes: Vec<String>,
    pub word: Option<String>,
    pub precedences: Vec<Vec<Value>>,
    pub reserved: Vec<(String, Vec<String>)>,
}

impl G {
    pub fn new(name: &str) -> Self { G { name: name.to_string(), ..Default::default() } }
    pub fn rule(mut self, n: &str, v: Value) -> Self { self.rules.push((n.to_string(), v)); self }
    pub fn extras(mut self, v: Vec<Value>) -> Self { self.extras = Some(v); self }
    pub fn conflict(mut self, v: &[&str]) -> Self { self.conflicts.push(v.iter().map(|s| s.to_string()).collect()); self }
    pub fn external(mut self, v: Value) -> Self { self.externals.push(v); self }
    pub fn inline(mut self, n: &str) -> Self { self.inline.push(n.to_string()); self }
    pub fn supertype(mut self, n: &str) -> Self { self.supertypes.push(n.to_string()); self }
    pub fn word(mut self, n: &str) -> Self { self.word = Some(n.to_string()); self }
    /// a reserved-word set; the first one declared is the global set
    pub fn reserved_set(mut self, name: &str, words: &[&str]) -> Self { self.reserved.push((name.to_string(), words.iter().map(|w| w.to_string()).collect())); self }
    pub fn precedence_order(mut self, names: &[&str]) -> Self { self.precedences.push(names.iter().map(|n| json!({"type": "STRING", "value": n})).collect()); self }
    pub fn to_value(&self) -> Value {
        let mut rules = Map::new();
        for (n, v) in &self.rules { rules.insert(n.clone(), v.clone()); }
        let mut g = Map::new();
        g.insert("name".into(), json!(self.name));
        if let Some(w) = &self.word { g.insert("word".into(), json!(w)); }
        g.insert("rules".into(), Value::Object(rules));
        g.insert("extras".into(), json!(self.extras.clone().unwrap_or_else(|| vec![pat("\\s")])));
        g.insert("conflicts".into(), json!(self.conflicts));
        g.insert("precedences".into(), json!(self.precedences));
        g.insert("externals".into(), json!(self.externals));
        g.insert("inline".into(), json!(self.inline));
        g.insert("supertypes".into(), json!(self.supertypes));
        if !self.reserved.is_empty() {
            let mut r = Map::new();
            for (n, ws) in &self.reserved { r.insert(n.clone(), json!(ws.iter().map(|w| json!({"type": "STRING", "value": w})).collect::<Vec<_>>())); }
            g.insert("reserved".into(), Value::Object(r));
        }
        Value::Object(g)
    }
    pub fn to_json(&self) -> String { serde_json::to_string(&self.to_value()).unwrap() }
}
