//! E-hist: breadth-first search over edit histories on the real API (serves C01, C04 and part of C02).
#![allow(dead_code)]
use crate::run::{Ctx, ShardResult};
use crate::text::{self, Edit};
use crate::wf::LangInfo;
use crate::xtree::{self, XTree};
use serde_json::{json, Value};
use std::collections::{HashMap, HashSet, VecDeque};
use tree_sitter::{Language, Parser, Tree};

#[derive(Clone, Copy, PartialEq, Eq)]
pub enum Oracle { C01, C02, C04 }

pub struct HistCfg {
    pub oracle: Oracle,
    pub depth: usize,
    /// chunk sizes for the read callback; 0 = whole buffer
    pub chunks: Vec<usize>,
    pub insert_atoms: Vec<Vec<u8>>,
    pub max_states_per_doc: usize,
}

pub fn chunked_parse(parser: &mut Parser, text: &[u8], old: Option<&Tree>, chunk: usize) -> Option<Tree> {
    if chunk == 0 { return parser.parse(text, old); }
    let len = text.len();
    // Conforming chunker: chunk boundaries lie on a grid of size `chunk` (so they fall inside multi-byte characters),
    // but a request at offset i always returns at least min(4, remaining) bytes: the runtime re-requests a chunk at the
    // start of a character whose bytes were cut off, and that request must be able to deliver the whole character.
    parser.parse_with_options(&mut |i, _| { if i < len { &text[i..chunk_end(i, chunk, len)] } else { &text[len..] } }, old, None)
}

pub fn chunk_end(i: usize, chunk: usize, len: usize) -> usize { ((i / chunk + 1) * chunk).max(i + 4).min(len) }

pub fn fresh_parse(language: &Language, text: &[u8]) -> Tree {
    let mut p = Parser::new();
    p.set_language(language).expect("set_language");
    p.parse(text, None).expect("parse returned None")
}

/// The edit alphabet at a text: every byte offset x {delete 1, delete 2, insert atom, replace 1 byte by single-byte atom}.
pub fn edit_alphabet(t: &[u8], atoms: &[Vec<u8>]) -> Vec<Edit> {
    let mut v = Vec::new();
    for p in 0..=t.len() {
        if p < t.len() { v.push(Edit { start: p, old_len: 1, ins: vec![] }); }
        if p + 2 <= t.len() { v.push(Edit { start: p, old_len: 2, ins: vec![] }); }
        for a in atoms { v.push(Edit { start: p, old_len: 0, ins: a.clone() }); }
        if p < t.len() {
            for a in atoms { if a.len() == 1 && a[0] != t[p] { v.push(Edit { start: p, old_len: 1, ins: a.clone() }); } }
        }
    }
    v
}

pub fn case_json(lang: &str, doc: &[u8], path: &[Edit], chunk: usize) -> Value {
    json!({"lang": lang, "doc": crate::util::bytes_json(doc), "edits": path.iter().map(|e| e.to_json()).collect::<Vec<_>>(), "chunk": chunk})
}

/// ancestor-kind stacks per byte (the upstream "scope sequence"), from an explicit tree
pub fn scope_hashes(xt: &XTree, len: usize) -> Vec<u64> {
    let mut out = vec![0u64; len];
    fn rec(xt: &XTree, i: usize, h: u64, out: &mut Vec<u64>) {
        let n = &xt.nodes[i];
        let h2 = crate::util::fnv_mix(h, n.kind_id as u64 + 1);
        let end = n.end.min(out.len());
        for b in n.start.min(end)..end { out[b] = h2; }
        for &c in &n.children { rec(xt, c, h2, out); }
    }
    rec(xt, 0, 14695981039346656037, &mut out);
    out
}

pub struct Transition<'a> {
    pub info: &'a LangInfo,
    pub new_text: &'a [u8],
    pub old_edited: &'a Tree,
    pub inc: &'a Tree,
}

/// C04 oracle on one transition. Returns (fingerprint, message) on violation.
pub fn check_c04(tr: &Transition) -> Option<(String, String)> {
    let ranges: Vec<tree_sitter::Range> = tr.old_edited.changed_ranges(tr.inc).collect();
    let len = tr.new_text.len();
    let old_x = XTree::build(tr.old_edited);
    let new_x = XTree::build(tr.inc);
    let doc_end = len.max(old_x.nodes[0].end).max(new_x.nodes[0].end);
    let mut prev_end = 0usize;
    for (k, r) in ranges.iter().enumerate() {
        if r.start_byte > r.end_byte { return Some(("range-inverted".into(), format!("range {} {:?}", k, r))); }
        if k > 0 && r.start_byte < prev_end { return Some(("ranges-unsorted-or-overlapping".into(), format!("range {} {:?} starts before previous end {}", k, r, prev_end))); }
        if r.end_byte > doc_end && r.end_byte != u32::MAX as usize { return Some(("range-outside-document".into(), format!("range {} {:?} doc end {}", k, r, doc_end))); }
        if r.start_byte <= len && r.start_point != text::point_at(tr.new_text, r.start_byte) {
            return Some(("range-start-point".into(), format!("range {} {:?} expected {:?}", k, r, text::point_at(tr.new_text, r.start_byte))));
        }
        if r.end_byte <= len && r.end_point != text::point_at(tr.new_text, r.end_byte) {
            return Some(("range-end-point".into(), format!("range {} {:?} expected {:?}", k, r, text::point_at(tr.new_text, r.end_byte))));
        }
        prev_end = r.end_byte;
    }
    let a = scope_hashes(&old_x, len);
    let b = scope_hashes(&new_x, len);
    for i in 0..len {
        if a[i] != b[i] && tr.new_text[i] != b'\n' && tr.new_text[i] != b'\r' {
            if !ranges.iter().any(|r| r.start_byte <= i && i < r.end_byte) {
                return Some(("scope-change-not-covered".into(), format!("byte {} has different ancestor kinds in old(edited) and new tree but lies in no changed range {:?}", i, ranges.iter().map(|r| (r.start_byte, r.end_byte)).collect::<Vec<_>>())));
            }
        }
    }
    None
}

pub struct ScratchCache { map: HashMap<Vec<u8>, (XTree, bool)> }
impl ScratchCache {
    pub fn new() -> Self { ScratchCache { map: HashMap::new() } }
    pub fn get(&mut self, language: &Language, text: &[u8]) -> &(XTree, bool) {
        if !self.map.contains_key(text) {
            if self.map.len() > 200_000 { self.map.clear(); }
            let t = fresh_parse(language, text);
            let x = XTree::build(&t);
            let bad = x.has_error_or_missing();
            self.map.insert(text.to_vec(), (x, bad));
        }
        &self.map[text]
    }
}

/// Explore all edit histories up to cfg.depth from `doc`. Continues from the *incremental* tree.
pub fn explore_doc(ctx: &Ctx, info: &LangInfo, doc: &[u8], cfg: &HistCfg, res: &mut ShardResult, scratch: &mut ScratchCache) {
    let lang = &info.language;
    let mut parser = Parser::new();
    parser.set_language(lang).unwrap();
    crate::case!("{}", case_json(&info.name, doc, &[], 0));
    let t0 = match parser.parse(doc, None) { Some(t) => t, None => { res.violation("parse-none", "parse returned None".into(), case_json(&info.name, doc, &[], 0)); return; } };
    let mut seen: HashSet<(u64, u64)> = HashSet::new();
    seen.insert((crate::util::fnv(doc), xtree::internal_hash(&t0)));
    res.states += 1;
    let mut frontier: VecDeque<(Vec<u8>, Tree, Vec<Edit>)> = VecDeque::new();
    frontier.push_back((doc.to_vec(), t0, vec![]));
    let mut sampled = false;
    while let Some((text, tree, path)) = frontier.pop_front() {
        let d = path.len();
        if d >= cfg.depth { continue; }
        let edits = edit_alphabet(&text, &cfg.insert_atoms);
        for (ei, e) in edits.iter().enumerate() {
            if res.too_many() { return; }
            let (new_text, ie) = text::apply(&text, e);
            // depth-1 transitions are crossed with every chunking, deeper ones cycle through them
            let chunk_list: Vec<usize> = if d == 0 { cfg.chunks.clone() } else { vec![cfg.chunks[ei % cfg.chunks.len()]] };
            let mut first_inc: Option<Tree> = None;
            for &chunk in &chunk_list {
                let mut full_path = path.clone();
                full_path.push(e.clone());
                crate::case!("{}", case_json(&info.name, doc, &full_path, chunk));
                let mut old = tree.clone();
                old.edit(&ie);
                let inc = match chunked_parse(&mut parser, &new_text, Some(&old), chunk) {
                    Some(t) => t,
                    None => { res.violation("parse-none", "incremental parse returned None".into(), case_json(&info.name, doc, &full_path, chunk)); continue; }
                };
                res.transitions += 1;
                match cfg.oracle {
                    Oracle::C01 => {
                        let inc_x = XTree::build(&inc);
                        let (scr_x, scr_bad) = scratch.get(lang, &new_text);
                        if !*scr_bad {
                            if let Some(diff) = inc_x.diff_visible(scr_x) {
                                res.violation("incremental-differs-from-scratch", format!("{} | inc={} scratch={}", diff, inc_x.sexp(lang), scr_x.sexp(lang)), case_json(&info.name, doc, &full_path, chunk));
                            }
                        } else if !inc_x.root_has_error() {
                            res.violation("incremental-hides-error", format!("from-scratch tree has ERROR/MISSING but the incremental root reports no error: inc={} scratch={}", inc_x.sexp(lang), scr_x.sexp(lang)), case_json(&info.name, doc, &full_path, chunk));
                        }
                        // non-trivial: something was reused (shared node ids) and something was re-lexed
                        let reused = reuse_happened(&old, &inc);
                        if reused { res.nontrivial += 1; }
                        res.outcome(crate::util::fnv_mix(inc_x.nodes.len() as u64, *scr_bad as u64));
                    }
                    Oracle::C02 => {
                        let inc_x = XTree::build(&inc);
                        for fnd in crate::wf::check(info, &new_text, &inc_x, None) {
                            res.violation(&fnd.fingerprint, fnd.msg, case_json(&info.name, doc, &full_path, chunk));
                        }
                        if let Err(m) = xtree::check_summaries(&inc) {
                            res.violation("stale-summary", m, case_json(&info.name, doc, &full_path, chunk));
                        }
                        if inc_x.has_error_or_missing() { res.nontrivial += 1; }
                        res.outcome(crate::util::fnv_mix(inc_x.nodes.len() as u64, inc_x.root_has_error() as u64));
                    }
                    Oracle::C04 => {
                        let tr = Transition { info, new_text: &new_text, old_edited: &old, inc: &inc };
                        if let Some((fp, msg)) = check_c04(&tr) {
                            res.violation(&fp, msg, case_json(&info.name, doc, &full_path, chunk));
                        }
                        let nr = old.changed_ranges(&inc).count();
                        if nr > 0 { res.nontrivial += 1; }
                        res.outcome(nr as u64);
                    }
                }
                if !sampled && d + 1 == cfg.depth && ei == edits.len() / 2 {
                    sampled = true;
                    res.sample(case_json(&info.name, doc, &full_path, chunk));
                }
                if first_inc.is_none() { first_inc = Some(inc); }
            }
            if d + 1 < cfg.depth {
                if let Some(inc) = first_inc {
                    let key = (crate::util::fnv(&new_text), xtree::internal_hash(&inc));
                    if seen.insert(key) {
                        if seen.len() > cfg.max_states_per_doc {
                            let c = format!("state cap {} per document reached; deeper histories of some documents not expanded", cfg.max_states_per_doc);
                            if !res.caps.contains(&c) { res.caps.push(c); }
                        } else {
                            res.states += 1;
                            let mut full_path = path.clone();
                            full_path.push(e.clone());
                            frontier.push_back((new_text, inc, full_path));
                        }
                    }
                }
            } else if let Some(inc) = first_inc {
                let key = (crate::util::fnv(&new_text), xtree::internal_hash(&inc));
                if seen.insert(key) { res.states += 1; }
            }
        }
        if ctx.out_of_time() {
            let c = "wall-clock budget reached; remaining frontier not expanded".to_string();
            if !res.caps.contains(&c) { res.caps.push(c); }
            return;
        }
    }
}

/// Batched edits: every ordered pair (thorough: also triples on short documents) of edits applied to the old tree with
/// `Tree::edit` BEFORE one re-parse ("after any sequence of text edits, each mirrored on the old tree"). The second edit
/// meets a tree whose positions and change marks were already rewritten by the first, and whose cached summaries
/// (look-ahead, column dependence, ...) still describe the unedited nodes.
pub fn explore_batched(ctx: &Ctx, info: &LangInfo, doc: &[u8], atoms: &[Vec<u8>], batch: usize, oracle: Oracle, res: &mut ShardResult, scratch: &mut ScratchCache) {
    let lang = &info.language;
    let mut parser = Parser::new();
    parser.set_language(lang).unwrap();
    let Some(t0) = parser.parse(doc, None) else { return };
    fn rec(ctx: &Ctx, info: &LangInfo, parser: &mut Parser, doc: &[u8], atoms: &[Vec<u8>], left: usize, text: &[u8], old: &Tree, path: &mut Vec<Edit>, oracle: Oracle, res: &mut ShardResult, scratch: &mut ScratchCache) {
        let lang = &info.language;
        for e in edit_alphabet(text, atoms) {
            if res.too_many() { return; }
            let (new_text, ie) = text::apply(text, &e);
            let mut edited = old.clone();
            edited.edit(&ie);
            path.push(e);
            if left > 1 {
                rec(ctx, info, parser, doc, atoms, left - 1, &new_text, &edited, path, oracle, res, scratch);
            } else {
                let mut cj = case_json(&info.name, doc, path, 0);
                cj["batched"] = json!(true);
                crate::case!("{}", cj);
                res.transitions += 1;
                match parser.parse(&new_text, Some(&edited)) {
                    None => res.violation("parse-none", "incremental parse returned None".into(), cj),
                    Some(inc) => match oracle {
                        Oracle::C04 => {
                            let tr = Transition { info, new_text: &new_text, old_edited: &edited, inc: &inc };
                            if let Some((fp, msg)) = check_c04(&tr) { res.violation(&format!("batched:{}", fp), msg, cj); }
                            if edited.changed_ranges(&inc).count() > 0 { res.nontrivial += 1; }
                        }
                        _ => {
                            let inc_x = XTree::build(&inc);
                            let (scr_x, scr_bad) = scratch.get(lang, &new_text);
                            if !*scr_bad {
                                if let Some(diff) = inc_x.diff_visible(scr_x) { res.violation("batched:incremental-differs-from-scratch", format!("{} | inc={} scratch={}", diff, inc_x.sexp(lang), scr_x.sexp(lang)), cj); }
                            } else if !inc_x.root_has_error() {
                                res.violation("batched:incremental-hides-error", format!("inc={} scratch={}", inc_x.sexp(lang), scr_x.sexp(lang)), cj);
                            }
                            if reuse_happened(&edited, &inc) { res.nontrivial += 1; }
                            res.outcome(crate::util::fnv_mix(inc_x.nodes.len() as u64, *scr_bad as u64));
                        }
                    },
                }
            }
            path.pop();
        }
    }
    res.states += 1;
    rec(ctx, info, &mut parser, doc, atoms, batch, doc, &t0, &mut vec![], oracle, res, scratch);
}

fn reuse_happened(old: &Tree, new: &Tree) -> bool {
    // any non-root node identity shared between the two trees
    let mut ids = HashSet::new();
    let ox = XTree::build(old);
    for n in &ox.nodes[1..] { ids.insert(n.id); }
    let nx = XTree::build(new);
    nx.nodes[1..].iter().any(|n| ids.contains(&n.id))
}

/// Re-execute one recorded case outside the explorer; returns a list of oracle messages (empty = holds).
pub fn replay(info: &LangInfo, case: &Value, oracle: Oracle) -> Vec<String> {
    let doc = crate::util::bytes_from_json(&case["doc"]);
    let edits: Vec<Edit> = case["edits"].as_array().unwrap().iter().map(Edit::from_json).collect();
    let chunk = case["chunk"].as_u64().unwrap_or(0) as usize;
    let mut parser = Parser::new();
    parser.set_language(&info.language).unwrap();
    let mut text = doc.clone();
    let mut tree = parser.parse(&text, None).unwrap();
    let mut msgs = vec![];
    let batched = case["batched"].as_bool().unwrap_or(false);
    for (k, e) in edits.iter().enumerate() {
        let (new_text, ie) = text::apply(&text, e);
        let mut old = tree.clone();
        old.edit(&ie);
        let last = k + 1 == edits.len();
        // batched edits: all of them are applied to the old tree before the one re-parse
        if batched && !last { text = new_text; tree = old; continue; }
        if last && std::env::var("VF_PARSE_LOG").is_ok() { parser.set_logger(Some(Box::new(|t, m: &str| { if t == tree_sitter::LogType::Parse { println!("  log: {}", m); } }))); }
        let inc = chunked_parse(&mut parser, &new_text, Some(&old), if last { chunk } else { 0 }).unwrap();
        parser.set_logger(None);
        if last {
            println!("new text: {:?}", String::from_utf8_lossy(&new_text));
            println!("incremental: {}", inc.root_node().to_sexp());
            let scr = fresh_parse(&info.language, &new_text);
            println!("scratch:     {}", scr.root_node().to_sexp());
            match oracle {
                Oracle::C01 => {
                    let ix = XTree::build(&inc);
                    let sx = XTree::build(&scr);
                    if !sx.has_error_or_missing() { if let Some(d) = ix.diff_visible(&sx) { msgs.push(d); } }
                    else if !ix.root_has_error() { msgs.push("incremental tree hides the error".into()); }
                }
                Oracle::C02 => {
                    let ix = XTree::build(&inc);
                    for f in crate::wf::check(info, &new_text, &ix, None) { msgs.push(format!("{}: {}", f.fingerprint, f.msg)); }
                    if let Err(m) = xtree::check_summaries(&inc) { msgs.push(m); }
                }
                Oracle::C04 => {
                    println!("old tree, edited: {}", XTree::build(&old).sexp_pos(&info.language));
                    println!("new tree:         {}", XTree::build(&inc).sexp_pos(&info.language));
                    println!("changed ranges:   {:?}", old.changed_ranges(&inc).map(|r| (r.start_byte, r.end_byte)).collect::<Vec<_>>());
                    let tr = Transition { info, new_text: &new_text, old_edited: &old, inc: &inc };
                    if let Some((fp, m)) = check_c04(&tr) { msgs.push(format!("{}: {}", fp, m)); }
                }
            }
        }
        text = new_text;
        tree = inc;
    }
    msgs
}


// ---------------------------------------------------------------------------------------------------------------------
// Included-range transitions (C01 "all included-range sets", C04 "also when the included ranges changed"):
// parse(d, R1) -> [edit] -> parse(d', R2, old) compared with parse(d', R2) from scratch / checked for changed-range coverage.

pub fn ranges_case_json(lang: &str, doc: &[u8], r1: &[(usize, usize)], edit: Option<&Edit>, r2: &[(usize, usize)]) -> Value {
    json!({"part": "ranges", "lang": lang, "doc": crate::util::bytes_json(doc), "r1": r1, "edit": edit.map(|e| e.to_json()), "r2": r2})
}

fn set_ranges(parser: &mut Parser, d: &[u8], r: &[(usize, usize)]) {
    let rs: Vec<tree_sitter::Range> = r.iter().map(|&(s, e)| crate::checks::c13::mk_range(d, s, e)).collect();
    parser.set_included_ranges(&rs).expect("ordered range list accepted");
}

/// One included-range transition under the given oracle. An empty list means the default (whole document).
pub fn check_ranges_transition(info: &LangInfo, parser: &mut Parser, doc: &[u8], r1: &[(usize, usize)], edit: Option<&Edit>, r2: &[(usize, usize)], oracle: Oracle) -> (Vec<(String, String)>, u64, bool) {
    let lang = &info.language;
    let mut errs = vec![];
    set_ranges(parser, doc, r1);
    let t1 = parser.parse(doc, None).expect("parse");
    let mut old = t1.clone();
    let new_text = match edit { Some(e) => { let (nt, ie) = text::apply(doc, e); old.edit(&ie); nt } None => doc.to_vec() };
    set_ranges(parser, &new_text, r2);
    let inc = parser.parse(&new_text, Some(&old)).expect("parse");
    parser.set_included_ranges(&[]).unwrap();
    let mut outcome = 0u64;
    let mut nontrivial = false;
    match oracle {
        Oracle::C04 => {
            let tr = Transition { info, new_text: &new_text, old_edited: &old, inc: &inc };
            if let Some((fp, msg)) = check_c04(&tr) { errs.push((format!("ranges:{}", fp), msg)); }
            let nr = old.changed_ranges(&inc).count();
            nontrivial = nr > 0 && r1 != r2;
            outcome = nr as u64;
        }
        _ => {
            let mut p2 = Parser::new();
            p2.set_language(lang).unwrap();
            set_ranges(&mut p2, &new_text, r2);
            let scr = p2.parse(&new_text, None).expect("parse");
            let ix = XTree::build(&inc);
            let sx = XTree::build(&scr);
            if !sx.has_error_or_missing() {
                if let Some(diff) = ix.diff_visible(&sx) {
                    // Known finding: when neither range list covers any text both trees are a lone zero-width root; the re-parse
                    // keeps the old root (the symmetric difference of two textless range lists is empty), so its position is
                    // that of the OLD first range, while a from-scratch parse puts it at the start of the new first range.
                    let lone_empty = |x: &XTree| x.nodes.len() == 1 && x.nodes[0].start == x.nodes[0].end;
                    // Known finding of the same kind for a zero-width token (an external scanner can produce one before any text):
                    // with an empty first range in the old or the new list, the token (and the nodes that begin with it) sits at
                    // that empty range's start; two lists that differ only in empty ranges have no difference, so the old token
                    // is reused where it was. Everything else about the two trees must agree.
                    let first_empty = |r: &[(usize, usize)]| r.first().map_or(false, |&(s, e)| s == e);
                    let new_first = r2.first().map_or(0, |&(s, _)| s);
                    let only_leading_zero_width = (first_empty(r1) || first_empty(r2)) && ix.nodes.len() == sx.nodes.len() && ix.nodes.iter().zip(sx.nodes.iter()).all(|(a, b)| {
                        a.kind_id == b.kind_id && a.named == b.named && a.extra == b.extra && a.missing == b.missing && a.field_id == b.field_id
                            && ((a.end == b.end && a.ep == b.ep) || (a.start == a.end && b.start == b.end && b.start == new_first))
                            && a.children.len() == b.children.len() && a.depth == b.depth && a.is_error == b.is_error
                            && ((a.start == b.start && a.sp == b.sp) || b.start == new_first)
                    });
                    let fp = if lone_empty(&ix) && lone_empty(&sx) { "ranges:empty-root-position" }
                        else if only_leading_zero_width { "ranges:zero-width-token-at-empty-leading-range" }
                        else { "ranges:incremental-differs-from-scratch" };
                    errs.push((fp.into(), format!("{} | inc={} scratch={}", diff, ix.sexp(lang), sx.sexp(lang))));
                }
            } else if !ix.root_has_error() {
                errs.push(("ranges:incremental-hides-error".into(), format!("inc={} scratch={}", ix.sexp(lang), sx.sexp(lang))));
            }
            if inc.included_ranges() != scr.included_ranges() { errs.push(("ranges:tree-included-ranges-differ".into(), format!("{:?} vs {:?}", inc.included_ranges(), scr.included_ranges()))); }
            nontrivial = r1 != r2 && reuse_happened(&old, &inc);
            outcome = crate::util::fnv_mix(ix.nodes.len() as u64, sx.has_error_or_missing() as u64);
        }
    }
    // Known finding: an old tree parsed with an (empty) included range that STARTS at u32::MAX has a root whose padding is
    // u32::MAX bytes; Tree::edit overflows that position (32-bit byte offsets), after which the positions read from the old
    // tree are meaningless. Such transitions get their own fingerprint.
    // Known finding (see C13): a range boundary inside a multi-byte character does not cut the character.
    let splits = |d: &[u8], r: &[(usize, usize)]| match std::str::from_utf8(d) { Ok(st) => r.iter().any(|&(s, e)| [s, e].iter().any(|&b| b < d.len() && !st.is_char_boundary(b))), Err(_) => false };
    if splits(doc, r1) || splits(&new_text, r2) { for e in errs.iter_mut() { e.0 = "ranges:range-boundary-splits-character".into(); } }
    // Known finding: the runtime compares range lists by the bytes they cover. Two lists that cover the same text in different
    // pieces are the same to it, but not to a scanner that asks `is_at_included_range_start` (language `seam`).
    if info.name == "seam" && edit.is_none() {
        let starts = |r: &[(usize, usize)]| -> Vec<usize> { if r.is_empty() { vec![0] } else { let mut v: Vec<usize> = r.iter().filter(|&&(s, e)| e.min(doc.len()) > s.min(doc.len())).map(|&(s, _)| s).collect(); v.dedup(); v } };
        if starts(r1) != starts(r2) { for e in errs.iter_mut() { e.0 = "ranges:range-starts-differ-for-boundary-querying-scanner".into(); } }
    }
    if edit.is_some() && r1.iter().any(|&(s, _)| s == u32::MAX as usize) { for e in errs.iter_mut() { e.0 = "ranges:old-tree-starts-at-u32max-then-edited".into(); } }
    (errs, outcome, nontrivial)
}

/// all lists of 0..=nr ranges over the byte positions of a document of `len` bytes plus u32::MAX (the empty list = default)
pub fn range_lists_for(len: usize, nr: usize) -> Vec<Vec<(usize, usize)>> {
    let mut positions: Vec<usize> = (0..=len).collect();
    positions.push(u32::MAX as usize);
    let mut out = vec![vec![]];
    fn rec(pos: &[usize], from: usize, left: usize, cur: &mut Vec<usize>, out: &mut Vec<Vec<(usize, usize)>>) {
        if cur.len() % 2 == 0 && !cur.is_empty() { out.push(cur.chunks(2).map(|c| (c[0], c[1])).collect()); }
        if left == 0 { return; }
        for i in from..pos.len() { cur.push(pos[i]); rec(pos, i, left - 1, cur, out); cur.pop(); }
    }
    rec(&positions, 0, 2 * nr, &mut vec![], &mut out);
    out
}

/// The box of included-range transitions for one document: passes = (max doc bytes, max ranges in R1, max ranges in R2, with edits).
pub fn explore_ranges(ctx: &Ctx, info: &LangInfo, doc: &[u8], passes: &[(usize, usize, usize, bool)], atoms: &[Vec<u8>], oracle: Oracle, res: &mut ShardResult) {
    let mut parser = Parser::new();
    parser.set_language(&info.language).unwrap();
    let mut done: HashSet<(usize, usize, bool)> = HashSet::new();
    for &(maxlen, n1, n2, with_edits) in passes {
        if doc.len() > maxlen || doc.is_empty() { continue; }
        if !done.insert((n1, n2, with_edits)) { continue; }
        let l1 = range_lists_for(doc.len(), n1);
        // (inserted atoms of at most 4 bytes: the positions of the new text are all range boundaries of R2)
        let edits: Vec<Option<Edit>> = if with_edits { edit_alphabet(doc, atoms).into_iter().filter(|e| e.ins.len() <= 4).map(Some).collect() } else { vec![None] };
        for e in edits.iter() {
            let new_len = match e { Some(e) => doc.len() - e.old_len + e.ins.len(), None => doc.len() };
            let l2 = range_lists_for(new_len, n2);
            for r1 in l1.iter() {
                for r2 in l2.iter() {
                    if e.is_none() && r1 == r2 { continue; }
                    crate::case!("{}", ranges_case_json(&info.name, doc, r1, e.as_ref(), r2));
                    let (errs, outcome, nontrivial) = check_ranges_transition(info, &mut parser, doc, r1, e.as_ref(), r2, oracle);
                    res.transitions += 1;
                    res.count("range_transitions", 1);
                    if nontrivial { res.nontrivial += 1; }
                    res.outcome(outcome);
                    for (fp, m) in errs { res.violation(&fp, m, ranges_case_json(&info.name, doc, r1, e.as_ref(), r2)); }
                    if res.too_many() { return; }
                }
            }
            if ctx.out_of_time() { let c = "wall-clock budget reached in the included-range box".to_string(); if !res.caps.contains(&c) { res.caps.push(c); } return; }
        }
    }
}

pub fn replay_ranges(info: &LangInfo, case: &Value, oracle: Oracle) -> Vec<String> {
    let doc = crate::util::bytes_from_json(&case["doc"]);
    let rl = |v: &Value| -> Vec<(usize, usize)> { v.as_array().map(|a| a.iter().map(|r| (r[0].as_u64().unwrap() as usize, r[1].as_u64().unwrap() as usize)).collect()).unwrap_or_default() };
    let (r1, r2) = (rl(&case["r1"]), rl(&case["r2"]));
    let edit = if case["edit"].is_null() { None } else { Some(Edit::from_json(&case["edit"])) };
    let mut parser = Parser::new();
    parser.set_language(&info.language).unwrap();
    {
        set_ranges(&mut parser, &doc, &r1);
        let t1 = parser.parse(&doc, None).unwrap();
        println!("parse(d, R1):        {}", XTree::build(&t1).sexp_pos(&info.language));
        let mut old = t1.clone();
        let nt = match &edit { Some(e) => { let (nt, ie) = text::apply(&doc, e); old.edit(&ie); nt } None => doc.clone() };
        println!("old tree, edited:    {}", XTree::build(&old).sexp_pos(&info.language));
        set_ranges(&mut parser, &nt, &r2);
        let inc = parser.parse(&nt, Some(&old)).unwrap();
        println!("parse(d', R2, old):  {}", XTree::build(&inc).sexp_pos(&info.language));
        let scr = parser.parse(&nt, None).unwrap();
        println!("parse(d', R2):       {}", XTree::build(&scr).sexp_pos(&info.language));
        println!("changed_ranges(old, inc): {:?}", old.changed_ranges(&inc).map(|r| (r.start_byte, r.end_byte)).collect::<Vec<_>>());
        parser.set_included_ranges(&[]).unwrap();
    }
    check_ranges_transition(info, &mut parser, &doc, &r1, edit.as_ref(), &r2, oracle).0.into_iter().map(|(f, m)| format!("{}: {}", f, m)).collect()
}
