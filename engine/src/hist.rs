//! E-hist: breadth-first search over edit histories on the real API (serves C01, C04 and part of C02).
#![allow(dead_code)]
use crate::run::{Ctx, ShardResult};
use crate::text::{self, Edit};
use crate::wf::LangInfo;
use crate::xtree::{self, XTree};
use serde_json::{json, Value};
use std::collections::{HashMap, HashSet, VecDeque};
use tree_sitter::{Language, Parser, Tree};

#[derive(Clone, Copy, PartialEq, Eq)]
pub enum Oracle { C01, C02, C04 }

pub struct HistCfg {
    pub oracle: Oracle,
    pub depth: usize,
    /// chunk sizes for the read callback; 0 = whole buffer
    pub chunks: Vec<usize>,
    pub insert_atoms: Vec<Vec<u8>>,
    pub max_states_per_doc: usize,
}

pub fn chunked_parse(parser: &mut Parser, text: &[u8], old: Option<&Tree>, chunk: usize) -> Option<Tree> {
    if chunk == 0 { return parser.parse(text, old); }
    let len = text.len();
    // Conforming chunker: chunk boundaries lie on a grid of size `chunk` (so they fall inside multi-byte characters),
    // but a request at offset i always returns at least min(4, remaining) bytes: the runtime re-requests a chunk at the
    // start of a character whose bytes were cut off, and that request must be able to deliver the whole character.
    parser.parse_with_options(&mut |i, _| { if i < len { &text[i..chunk_end(i, chunk, len)] } else { &text[len..] } }, old, None)
}

pub fn chunk_end(i: usize, chunk: usize, len: usize) -> usize { ((i / chunk + 1) * chunk).max(i + 4).min(len) }

pub fn fresh_parse(language: &Language, text: &[u8]) -> Tree {
    let mut p = Parser::new();
    p.set_language(language).expect("set_language");
    p.parse(text, None).expect("parse returned None")
}

/// The edit alphabet at a text: every byte offset x {delete 1, delete 2, insert atom, replace 1 byte by single-byte atom}.
pub fn edit_alphabet(t: &[u8], atoms: &[Vec<u8>]) -> Vec<Edit> {
    let mut v = Vec::new();
    for p in 0..=t.len() {
        if p < t.len() { v.push(Edit { start: p, old_len: 1, ins: vec![] }); }
        if p + 2 <= t.len() { v.push(Edit { start: p, old_len: 2, ins: vec![] }); }
        for a in atoms { v.push(Edit { start: p, old_len: 0, ins: a.clone() }); }
        if p < t.len() {
            for a in atoms { if a.len() == 1 && a[0] != t[p] { v.push(Edit { start: p, old_len: 1, ins: a.clone() }); } }
        }
    }
    v
}

pub fn case_json(lang: &str, doc: &[u8], path: &[Edit], chunk: usize) -> Value {
    json!({"lang": lang, "doc": crate::util::bytes_json(doc), "edits": path.iter().map(|e| e.to_json()).collect::<Vec<_>>(), "chunk": chunk})
}

/// ancestor-kind stacks per byte (the upstream "scope sequence"), from an explicit tree
pub fn scope_hashes(xt: &XTree, len: usize) -> Vec<u64> {
    let mut out = vec![0u64; len];
    fn rec(xt: &XTree, i: usize, h: u64, out: &mut Vec<u64>) {
        let n = &xt.nodes[i];
        let h2 = crate::util::fnv_mix(h, n.kind_id as u64 + 1);
        let end = n.end.min(out.len());
        for b in n.start.min(end)..end { out[b] = h2; }
        for &c in &n.children { rec(xt, c, h2, out); }
    }
    rec(xt, 0, 14695981039346656037, &mut out);
    out
}

pub struct Transition<'a> {
    pub info: &'a LangInfo,
    pub new_text: &'a [u8],
    pub old_edited: &'a Tree,
    pub inc: &'a Tree,
}

/// C04 oracle on one transition. Returns (fingerprint, message) on violation.
pub fn check_c04(tr: &Transition) -> Option<(String, String)> {
    let ranges: Vec<tree_sitter::Range> = tr.old_edited.changed_ranges(tr.inc).collect();
    let len = tr.new_text.len();
    let old_x = XTree::build(tr.old_edited);
    let new_x = XTree::build(tr.inc);
    let doc_end = len.max(old_x.nodes[0].end).max(new_x.nodes[0].end);
    let mut prev_end = 0usize;
    for (k, r) in ranges.iter().enumerate() {
        if r.start_byte > r.end_byte { return Some(("range-inverted".into(), format!("range {} {:?}", k, r))); }
        if k > 0 && r.start_byte < prev_end { return Some(("ranges-unsorted-or-overlapping".into(), format!("range {} {:?} starts before previous end {}", k, r, prev_end))); }
        if r.end_byte > doc_end && r.end_byte != u32::MAX as usize { return Some(("range-outside-document".into(), format!("range {} {:?} doc end {}", k, r, doc_end))); }
        if r.start_byte <= len && r.start_point != text::point_at(tr.new_text, r.start_byte) {
            return Some(("range-start-point".into(), format!("range {} {:?} expected {:?}", k, r, text::point_at(tr.new_text, r.start_byte))));
        }
        if r.end_byte <= len && r.end_point != text::point_at(tr.new_text, r.end_byte) {
            return Some(("range-end-point".into(), format!("range {} {:?} expected {:?}", k, r, text::point_at(tr.new_text, r.end_byte))));
        }
        prev_end = r.end_byte;
    }
    let a = scope_hashes(&old_x, len);
    let b = scope_hashes(&new_x, len);
    for i in 0..len {
        if a[i] != b[i] && tr.new_text[i] != b'\n' && tr.new_text[i] != b'\r' {
            if !ranges.iter().any(|r| r.start_byte <= i && i < r.end_byte) {
                return Some(("scope-change-not-covered".into(), format!("byte {} has different ancestor kinds in old(edited) and new tree but lies in no changed range {:?}", i, ranges.iter().map(|r| (r.start_byte, r.end_byte)).collect::<Vec<_>>())));
            }
        }
    }
    None
}

pub struct ScratchCache { map: HashMap<Vec<u8>, (XTree, bool)> }
impl ScratchCache {
    pub fn new() -> Self { ScratchCache { map: HashMap::new() } }
    pub fn get(&mut self, language: &Language, text: &[u8]) -> &(XTree, bool) {
        if !self.map.contains_key(text) {
            if self.map.len() > 200_000 { self.map.clear(); }
            let t = fresh_parse(language, text);
            let x = XTree::build(&t);
            let bad = x.has_error_or_missing();
            self.map.insert(text.to_vec(), (x, bad));
        }
        &self.map[text]
    }
}

/// Explore all edit histories up to cfg.depth from `doc`. Continues from the *incremental* tree.
pub fn explore_doc(ctx: &Ctx, info: &LangInfo, doc: &[u8], cfg: &HistCfg, res: &mut ShardResult, scratch: &mut ScratchCache) {
    let lang = &info.language;
    let mut parser = Parser::new();
    parser.set_language(lang).unwrap();
    crate::case!("{}", case_json(&info.name, doc, &[], 0));
    let t0 = match parser.parse(doc, None) { Some(t) => t, None => { res.violation("parse-none", "parse returned None".into(), case_json(&info.name, doc, &[], 0)); return; } };
    let mut seen: HashSet<(u64, u64)> = HashSet::new();
    seen.insert((crate::util::fnv(doc), xtree::internal_hash(&t0)));
    res.states += 1;
    let mut frontier: VecDeque<(Vec<u8>, Tree, Vec<Edit>)> = VecDeque::new();
    frontier.push_back((doc.to_vec(), t0, vec![]));
    let mut sampled = false;
    while let Some((text, tree, path)) = frontier.pop_front() {
        let d = path.len();
        if d >= cfg.depth { continue; }
        let edits = edit_alphabet(&text, &cfg.insert_atoms);
        for (ei, e) in edits.iter().enumerate() {
            if res.too_many() { return; }
            let (new_text, ie) = text::apply(&text, e);
            // depth-1 transitions are crossed with every chunking, deeper ones cycle through them
            let chunk_list: Vec<usize> = if d == 0 { cfg.chunks.clone() } else { vec![cfg.chunks[ei % cfg.chunks.len()]] };
            let mut first_inc: Option<Tree> = None;
            for &chunk in &chunk_list {
                let mut full_path = path.clone();
                full_path.push(e.clone());
                crate::case!("{}", case_json(&info.name, doc, &full_path, chunk));
                let mut old = tree.clone();
                old.edit(&ie);
                let inc = match chunked_parse(&mut parser, &new_text, Some(&old), chunk) {
                    Some(t) => t,
                    None => { res.violation("parse-none", "incremental parse returned None".into(), case_json(&info.name, doc, &full_path, chunk)); continue; }
                };
                res.transitions += 1;
                match cfg.oracle {
                    Oracle::C01 => {
                        let inc_x = XTree::build(&inc);
                        let (scr_x, scr_bad) = scratch.get(lang, &new_text);
                        if !*scr_bad {
                            if let Some(diff) = inc_x.diff_visible(scr_x) {
                                res.violation("incremental-differs-from-scratch", format!("{} | inc={} scratch={}", diff, inc_x.sexp(lang), scr_x.sexp(lang)), case_json(&info.name, doc, &full_path, chunk));
                            }
                        } else if !inc_x.root_has_error() {
                            res.violation("incremental-hides-error", format!("from-scratch tree has ERROR/MISSING but the incremental root reports no error: inc={} scratch={}", inc_x.sexp(lang), scr_x.sexp(lang)), case_json(&info.name, doc, &full_path, chunk));
                        }
                        // non-trivial: something was reused (shared node ids) and something was re-lexed
                        let reused = reuse_happened(&old, &inc);
                        if reused { res.nontrivial += 1; }
                        res.outcome(crate::util::fnv_mix(inc_x.nodes.len() as u64, *scr_bad as u64));
                    }
                    Oracle::C02 => {
                        let inc_x = XTree::build(&inc);
                        for fnd in crate::wf::check(info, &new_text, &inc_x, None) {
                            res.violation(&fnd.fingerprint, fnd.msg, case_json(&info.name, doc, &full_path, chunk));
                        }
                        if let Err(m) = xtree::check_summaries(&inc) {
                            res.violation("stale-summary", m, case_json(&info.name, doc, &full_path, chunk));
                        }
                        if inc_x.has_error_or_missing() { res.nontrivial += 1; }
                        res.outcome(crate::util::fnv_mix(inc_x.nodes.len() as u64, inc_x.root_has_error() as u64));
                    }
                    Oracle::C04 => {
                        let tr = Transition { info, new_text: &new_text, old_edited: &old, inc: &inc };
                        if let Some((fp, msg)) = check_c04(&tr) {
                            res.violation(&fp, msg, case_json(&info.name, doc, &full_path, chunk));
                        }
                        let nr = old.changed_ranges(&inc).count();
                        if nr > 0 { res.nontrivial += 1; }
                        res.outcome(nr as u64);
                    }
                }
                if !sampled && d + 1 == cfg.depth && ei == edits.len() / 2 {
                    sampled = true;
                    res.sample(case_json(&info.name, doc, &full_path, chunk));
                }
                if first_inc.is_none() { first_inc = Some(inc); }
            }
            if d + 1 < cfg.depth {
                if let Some(inc) = first_inc {
                    let key = (crate::util::fnv(&new_text), xtree::internal_hash(&inc));
                    if seen.insert(key) {
                        if seen.len() > cfg.max_states_per_doc {
                            let c = format!("state cap {} per document reached; deeper histories of some documents not expanded", cfg.max_states_per_doc);
                            if !res.caps.contains(&c) { res.caps.push(c); }
                        } else {
                            res.states += 1;
                            let mut full_path = path.clone();
                            full_path.push(e.clone());
                            frontier.push_back((new_text, inc, full_path));
                        }
                    }
                }
            } else if let Some(inc) = first_inc {
                let key = (crate::util::fnv(&new_text), xtree::internal_hash(&inc));
                if seen.insert(key) { res.states += 1; }
            }
        }
        if ctx.out_of_time() {
            let c = "wall-clock budget reached; remaining frontier not expanded".to_string();
            if !res.caps.contains(&c) { res.caps.push(c); }
            return;
        }
    }
}

fn reuse_happened(old: &Tree, new: &Tree) -> bool {
    // any non-root node identity shared between the two trees
    let mut ids = HashSet::new();
    let ox = XTree::build(old);
    for n in &ox.nodes[1..] { ids.insert(n.id); }
    let nx = XTree::build(new);
    nx.nodes[1..].iter().any(|n| ids.contains(&n.id))
}

/// Re-execute one recorded case outside the explorer; returns a list of oracle messages (empty = holds).
pub fn replay(info: &LangInfo, case: &Value, oracle: Oracle) -> Vec<String> {
    let doc = crate::util::bytes_from_json(&case["doc"]);
    let edits: Vec<Edit> = case["edits"].as_array().unwrap().iter().map(Edit::from_json).collect();
    let chunk = case["chunk"].as_u64().unwrap_or(0) as usize;
    let mut parser = Parser::new();
    parser.set_language(&info.language).unwrap();
    let mut text = doc.clone();
    let mut tree = parser.parse(&text, None).unwrap();
    let mut msgs = vec![];
    for (k, e) in edits.iter().enumerate() {
        let (new_text, ie) = text::apply(&text, e);
        let mut old = tree.clone();
        old.edit(&ie);
        let last = k + 1 == edits.len();
        let inc = chunked_parse(&mut parser, &new_text, Some(&old), if last { chunk } else { 0 }).unwrap();
        if last {
            println!("new text: {:?}", String::from_utf8_lossy(&new_text));
            println!("incremental: {}", inc.root_node().to_sexp());
            let scr = fresh_parse(&info.language, &new_text);
            println!("scratch:     {}", scr.root_node().to_sexp());
            match oracle {
                Oracle::C01 => {
                    let ix = XTree::build(&inc);
                    let sx = XTree::build(&scr);
                    if !sx.has_error_or_missing() { if let Some(d) = ix.diff_visible(&sx) { msgs.push(d); } }
                    else if !ix.root_has_error() { msgs.push("incremental tree hides the error".into()); }
                }
                Oracle::C02 => {
                    let ix = XTree::build(&inc);
                    for f in crate::wf::check(info, &new_text, &ix, None) { msgs.push(format!("{}: {}", f.fingerprint, f.msg)); }
                    if let Err(m) = xtree::check_summaries(&inc) { msgs.push(m); }
                }
                Oracle::C04 => {
                    let tr = Transition { info, new_text: &new_text, old_edited: &old, inc: &inc };
                    if let Some((fp, m)) = check_c04(&tr) { msgs.push(format!("{}: {}", fp, m)); }
                }
            }
        }
        text = new_text;
        tree = inc;
    }
    msgs
}
