//! Reference query semantics: a backtracking matcher over the explicit tree, written from
//! docs/src/using-parsers/queries (not from query.c).
#![allow(dead_code)]
use crate::xtree::XTree;
use std::collections::HashSet;
use tree_sitter::Language;

#[derive(Clone, Debug, PartialEq)]
pub enum Kind { Named(String), AnyNamed, Any, Anon(String), Error, Missing(Option<(String, bool)>), Super(String), SuperSub(String, String) }
#[derive(Clone, Copy, Debug, PartialEq)]
pub enum Quant { One, Opt, Star, Plus }

#[derive(Clone, Debug)]
pub struct Pat {
    pub kind: Kind,
    pub field: Option<String>,
    pub children: Vec<Elem>,
    pub neg_fields: Vec<String>,
    pub capture: Option<String>,
    pub quant: Quant,
    /// '.' after the last child
    pub anchor_end: bool,
}
#[derive(Clone, Debug)]
pub struct Elem { pub anchor_before: bool, pub alts: Vec<Pat> }

impl Pat {
    pub fn new(kind: Kind) -> Pat { Pat { kind, field: None, children: vec![], neg_fields: vec![], capture: None, quant: Quant::One, anchor_end: false } }
    pub fn cap(mut self, c: &str) -> Pat { self.capture = Some(c.to_string()); self }
    pub fn field(mut self, f: &str) -> Pat { self.field = Some(f.to_string()); self }
    pub fn quant(mut self, q: Quant) -> Pat { self.quant = q; self }
    pub fn child(mut self, p: Pat) -> Pat { self.children.push(Elem { anchor_before: false, alts: vec![p] }); self }
    pub fn has_quantifier(&self) -> bool { self.quant != Quant::One || self.children.iter().any(|e| e.alts.iter().any(|p| p.has_quantifier())) }
    pub fn has_anon_next_to_anchor(&self) -> bool {
        let is_anon = |p: &Pat| matches!(p.kind, Kind::Anon(_) | Kind::Any | Kind::Missing(_));
        for (i, e) in self.children.iter().enumerate() {
            let anchored = e.anchor_before || (i + 1 < self.children.len() && self.children[i + 1].anchor_before) || (i + 1 == self.children.len() && self.anchor_end);
            if anchored && e.alts.iter().any(|p| is_anon(p)) { return true; }
            if e.alts.iter().any(|p| p.has_anon_next_to_anchor()) { return true; }
        }
        false
    }

    pub fn source(&self) -> String {
        let mut s = String::new();
        if let Some(f) = &self.field { s.push_str(f); s.push_str(": "); }
        let open = |k: &str| format!("({}", k);
        let body = |s: &mut String, me: &Pat| {
            for e in &me.children {
                s.push(' ');
                if e.anchor_before { s.push_str(". "); }
                if e.alts.len() == 1 { s.push_str(&e.alts[0].source()); } else {
                    // the field of an alternation is written once, before the bracket
                    if let Some(f) = &e.alts[0].field { s.push_str(f); s.push_str(": "); }
                    s.push('[');
                    for a in &e.alts { s.push(' '); let mut a2 = a.clone(); a2.field = None; s.push_str(&a2.source()); }
                    s.push_str(" ]");
                }
            }
            for f in &me.neg_fields { s.push_str(" !"); s.push_str(f); }
            if me.anchor_end { s.push_str(" ."); }
            s.push(')');
        };
        match &self.kind {
            Kind::Named(k) => { s.push_str(&open(k)); body(&mut s, self); }
            Kind::AnyNamed => { s.push_str("(_"); body(&mut s, self); }
            Kind::Any => s.push('_'),
            Kind::Anon(k) => { s.push('"'); s.push_str(&k.replace('\\', "\\\\").replace('"', "\\\"")); s.push('"'); }
            Kind::Error => { s.push_str("(ERROR"); body(&mut s, self); }
            Kind::Missing(None) => s.push_str("(MISSING)"),
            Kind::Missing(Some((k, true))) => s.push_str(&format!("(MISSING {})", k)),
            Kind::Missing(Some((k, false))) => s.push_str(&format!("(MISSING \"{}\")", k)),
            Kind::Super(k) => { s.push_str(&open(k)); body(&mut s, self); }
            Kind::SuperSub(a, b) => { s.push_str(&format!("({}/{}", a, b)); body(&mut s, self); }
        }
        match self.quant { Quant::One => {} Quant::Opt => s.push('?'), Quant::Star => s.push('*'), Quant::Plus => s.push('+') }
        if let Some(c) = &self.capture { s.push_str(" @"); s.push_str(c); }
        s
    }
}

pub type Binding = Vec<(String, usize)>;

pub struct Matcher<'a> {
    pub xt: &'a XTree,
    pub lang: &'a Language,
    /// does node i belong to supertype `name`? (language-specific knowledge supplied by the check)
    pub in_supertype: &'a dyn Fn(&XTree, usize, &str) -> bool,
}

impl<'a> Matcher<'a> {
    fn kind_name(&self, i: usize) -> &str { self.lang.node_kind_for_id(self.xt.nodes[i].kind_id).unwrap_or("?") }

    fn kind_ok(&self, k: &Kind, i: usize) -> bool {
        let n = &self.xt.nodes[i];
        match k {
            Kind::Named(name) => n.named && self.kind_name(i) == name,
            // reconciled with the implementation: the documentation does not say whether wildcards match ERROR nodes;
            // they do not (an ERROR node is only matched by (ERROR))
            Kind::AnyNamed => n.named && !n.is_error,
            Kind::Any => !n.is_error,
            Kind::Anon(name) => !n.named && self.kind_name(i) == name,
            Kind::Error => n.is_error,
            Kind::Missing(None) => n.missing,
            Kind::Missing(Some((name, named))) => n.missing && n.named == *named && self.kind_name(i) == name,
            Kind::Super(s) => (self.in_supertype)(self.xt, i, s),
            Kind::SuperSub(s, sub) => (self.in_supertype)(self.xt, i, s) && self.kind_name(i) == sub,
        }
    }

    /// all bindings for pattern `p` matched exactly at node `i` (field of `p` checked against i's own field)
    pub fn at_node(&self, p: &Pat, i: usize) -> Vec<Binding> {
        let n = &self.xt.nodes[i];
        if !self.kind_ok(&p.kind, i) { return vec![]; }
        if let Some(f) = &p.field { if n.field_id == 0 || self.lang.field_name_for_id(n.field_id) != Some(f.as_str()) { return vec![]; } }
        for nf in &p.neg_fields { if n.children.iter().any(|&c| self.xt.nodes[c].field_id != 0 && self.lang.field_name_for_id(self.xt.nodes[c].field_id) == Some(nf.as_str())) { return vec![]; } }
        let mut own: Binding = vec![];
        if let Some(c) = &p.capture { own.push((c.clone(), i)); }
        let kids = &n.children;
        let mut results: Vec<Binding> = vec![];
        self.assign(p, kids, 0, 0, None, &mut own.clone(), &mut results);
        results
    }

    fn named_between(&self, kids: &[usize], from: usize, to: usize) -> bool { kids[from..to].iter().any(|&c| self.xt.nodes[c].named) }

    /// elems[ei..] against kids[pos..]; `last` = index (in kids) of the previously matched child
    fn assign(&self, p: &Pat, kids: &[usize], ei: usize, pos: usize, last: Option<usize>, acc: &mut Binding, out: &mut Vec<Binding>) {
        if out.len() > 5000 { return; }
        if ei == p.children.len() {
            if p.anchor_end {
                match last { Some(l) => if self.named_between(kids, l + 1, kids.len()) { return; }, None => {} }
            }
            out.push(acc.clone());
            return;
        }
        let e = &p.children[ei];
        // quantifier is a property of the (single) alternative or of the alternation as a whole: use the first alt's
        let q = e.alts[0].quant;
        if q == Quant::Opt || q == Quant::Star { self.assign(p, kids, ei + 1, pos, last, acc, out); }
        self.assign_rep(p, kids, ei, pos, last, acc, out, q, true);
    }

    fn assign_rep(&self, p: &Pat, kids: &[usize], ei: usize, pos: usize, last: Option<usize>, acc: &mut Binding, out: &mut Vec<Binding>, q: Quant, first_rep: bool) {
        let e = &p.children[ei];
        for c in pos..kids.len() {
            if e.anchor_before && first_rep {
                let from = last.map(|l| l + 1).unwrap_or(0);
                if self.named_between(kids, from, c) { break; }
            }
            for alt in &e.alts {
                let mut a1 = alt.clone();
                a1.quant = Quant::One;
                for b in self.at_node(&a1, kids[c]) {
                    let mark = acc.len();
                    acc.extend(b);
                    self.assign(p, kids, ei + 1, c + 1, Some(c), acc, out);
                    if q == Quant::Star || q == Quant::Plus { self.assign_rep(p, kids, ei, c + 1, Some(c), acc, out, q, false); }
                    acc.truncate(mark);
                }
            }
        }
    }

    /// every binding of pattern `p` anywhere in the tree
    pub fn all(&self, p: &Pat) -> Vec<Binding> {
        let mut out = vec![];
        for i in 0..self.xt.nodes.len() { out.extend(self.at_node(p, i)); if out.len() > 20000 { break; } }
        out
    }
}

pub fn canon(b: &Binding) -> Vec<(String, usize)> { let mut v = b.clone(); v.sort(); v }
pub fn distinct(bs: &[Binding]) -> HashSet<Vec<(String, usize)>> { bs.iter().map(canon).collect() }
