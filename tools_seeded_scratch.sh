#!/usr/bin/env bash
# Run checks against seeded changes WITHOUT touching /repo: a scratch worktree of /repo's HEAD plus a scratch copy of /verif
# bound to it (the same arrangement as tools_seeded_matrix.sh), for given (seeded dir, ID, checks...) triples.
# usage: tools_seeded_scratch.sh <seeded-root> <tier> <ID>:<check>[,<check>...] [<ID>:<checks> ...]
set -u
ROOTDIR="$1"; TIER="$2"; shift 2
SX=${VF_SCRATCH_DIR:-/tmp/vf-scratch}
rm -rf "$SX/verif"; mkdir -p "$SX"
git -C /repo worktree remove --force "$SX/repo" 2>/dev/null
git -C /repo worktree add --detach "$SX/repo" HEAD >/dev/null 2>&1 || { echo "cannot create worktree"; exit 2; }
rsync -a --exclude work --exclude replays --exclude .git /verif/ "$SX/verif/"
grep -rl '/repo/' "$SX/verif/engine" "$SX/verif/engine-cli" --include=*.toml --include=*.rs | xargs sed -i "s#\"/repo/#\"$SX/repo/#g; s#path = \"/repo/#path = \"$SX/repo/#g"
# share the compiled zoo parsers where the generated code is identical
mkdir -p "$SX/verif/work"
for spec in "$@"; do
  id="${spec%%:*}"; checks="${spec#*:}"
  ( cd "$SX/repo" && git checkout -q -- . && git apply "$ROOTDIR/$id/patch.diff" ) || { echo "$id PATCH-DOES-NOT-APPLY"; continue; }
  for c in ${checks//,/ }; do
    out=$(cd "$SX/verif" && ./vf check "$c" "$TIER" 2>&1); rc=$?
    nviol=$(echo "$out" | grep -c '^VIOLATION')
    first=$(echo "$out" | grep -m1 '^\s*\[' | cut -c1-300)
    echo "$id <- $c $TIER rc=$rc violations=$nviol $first"
  done
done
cd /
git -C /repo worktree remove --force "$SX/repo"
rm -rf "$SX"
