#!/usr/bin/env python3
# Regenerates /verif/MANIFEST.json from the table below (single source of truth for the interface file).
import json, subprocess
ALL = [f"C{n:02d}" for n in range(1, 21)]
def hooks_commits():
    out = subprocess.run(["git", "-C", "/repo", "log", "--format=%h %s"], capture_output=True, text=True).stdout
    return [l.split()[0] for l in out.splitlines() if l.split(' ', 1)[1].startswith("verif hook")]
CHECKS = {
 "C01": ("model_checking", "Explicit-state BFS over edit histories on the real runtime: a complete edit alphabet at every byte offset of every start document of every zoo language (incl. external-scanner and GLR grammars), every chunk size, plus the box of ALL pairs of included-range lists (R1 -> R2, optionally with every edit) on short documents; the incremental re-parse is compared node-for-node with a from-scratch parse.",
         "Trusts clang, the zoo grammars/scanners and the text model; bounded to the zoo and the stated document/history bounds.",
         "explicit-state BFS over edit histories (bounded exhaustive) with a differential oracle", "DESIGN.md §2 C01"),
 "C02": ("model_checking", "Bounded-exhaustive enumeration of all strings of <=n atoms (lexemes + adversarial bytes) per zoo language, size families up to 1e5, and every tree reached by the edit-history BFS; oracle derived from the bytes only plus re-derivation of every cached subtree summary (hook H2); termination via operation budget and watchdog.",
         "Tiling asserted only for grammars without hidden non-empty terminals (all zoo grammars).",
         "bounded-exhaustive input enumeration + explicit-state BFS, byte-level well-formedness oracle", "DESIGN.md §2 C02"),
 "C04": ("model_checking", "Same BFS as C01, including the box of all pairs of included-range lists between consecutive parses; the reported changed ranges are checked (sorted, disjoint, in-document, consistent points, and covering every byte whose ancestor-kind stack differs between the edited old tree and the new tree).",
         "Newline bytes are exempt, as in upstream's own scope-sequence oracle; bounded to the zoo.",
         "explicit-state BFS over edit histories, per-byte scope-stack oracle", "DESIGN.md §2 C04"),
 "C06": ("model_checking", "For every tree of a bounded-exhaustive document family (plus wide, multi-line, zero-width and edited-and-reparsed trees) every Node and TreeCursor navigation call is evaluated for every node and every argument and compared with the explicit tree built from one cursor walk.",
         "descendant_for_*_range asserted up to the zero-width ambiguity the documentation leaves open; two known findings listed in known_findings.json.",
         "bounded-exhaustive enumeration of (tree, node, argument) with an explicit-tree reference model", "DESIGN.md §2 C06"),
 "C10": ("model_checking", "For every tree of a bounded-exhaustive document family and EVERY edit (all start/length pairs x 8 inserted texts incl. runs of 15/16/17 line breaks) and BFS over edit sequences without re-parsing, the tree before and after Tree::edit are compared in lock step against a reference text model; Node::edit, edit_point, edit_range and the stored included ranges are checked under the same mapping; the look-ahead rule uses hook H2.",
         "Zero-width nodes on an edit boundary: containment only. Positions exactly at a pure insertion point may map to either side.",
         "bounded-exhaustive (tree, edit) enumeration + explicit-state BFS over edit sequences, text-model oracle", "DESIGN.md §2 C10"),
 "C09": ("model_checking", "Exhaustive enumeration of environment answers on the real runtime: all 2^(n-1) chunkings of small documents, all single/pair split points of medium ones, UTF-16LE/BE vs UTF-8 with unit chunkings, BFS over prior parser histories to depth 3, cancellation at every progress-callback index and every pair followed by resume or reset (fresh and incremental parses); every run compared with a fresh whole-buffer parse.",
         "Cancellation points exist every 100 parser operations. Two known findings (recovery shape depends on encoding for erroneous text; partition-style chunkers that cut characters).",
         "deviation-bounded exhaustive enumeration of environment answers (chunk boundaries, encodings, histories, cancellation indices)", "DESIGN.md §2 C09"),
 "C13": ("model_checking", "For every small document of the zoo languages (with and without external scanners) and EVERY list of up to 2-4 included ranges over all byte positions (plus beyond-EOF positions), the tree parsed with ranges is compared with the tree of the concatenated text under the offset map; leaves must not reach into excluded text; Tree/Parser::included_ranges read back; complete setter-validation box.",
         "Shape equality only when the concatenation is error-free. Known findings: ranges cutting multi-byte characters; ERROR-leaf extents at seams.",
         "bounded-exhaustive enumeration of (document, range list) with a concatenation reference", "DESIGN.md §2 C13"),
 "C08": ("model_checking", "C08a: explicit-state BFS over copy/edit/reparse/walk/delete histories on up to 3 live handles with before/after snapshots (internal dump via hook H2) of every other handle. C08b: stateless exploration of ALL thread schedules up to a preemption bound for 2-3 real OS threads working on distinct copies, on the real C runtime under a baton-passing scheduler hooked (H1) at every reference-count atomic and plain ref_count read of shared nodes; each schedule replayed from a fresh parse and compared with sequential results, allocation balance and foreign/double frees.",
         "Sequentially consistent interleavings at hooked points only; non-atomic read-modify-write and weak memory orderings are outside the scheduler (TSan pass in the thorough tier).",
         "explicit-state BFS over handle histories + preemption-bounded exhaustive schedule enumeration (controlled scheduler on real code)", "DESIGN.md §2 C08"),
 "C07": ("model_checking", "The explorers of C01 C02 C04 C05 C06 C08 C09 C10 C11 C13 re-run unchanged in an ASan+UBSan build of the C runtime, generated parsers and scanners (ts_assert live) with a counting allocator (balance must return to the baseline after every explorer, including cancelled-and-abandoned parses); every API call history up to depth 3 (thorough 4) over a 22-operation alphabet replayed from scratch with allocation balance; Query::new on every string of <=4 (thorough 5) query-syntax atoms, executing accepted queries.",
         "Only the C side is instrumented. Uninitialised reads: the thorough tier re-runs the mini box with every worker under valgrind memcheck (plain flavour, evidence file C07-valgrind.json). Sanitizer reports abort the worker and are reported with the recorded case.",
         "explicit-state exploration of API call histories under sanitizers with allocation-balance monitors", "DESIGN.md §2 C07"),
 "C03": ("model_checking", "Bounded-exhaustive enumeration of grammar families (G1: 6400 structured CFGs with repeats/optionals/fields/aliases/hidden/inlined rules/extras; G2: 1728 operator-precedence tables; G3: GLR grammars with declared conflicts and dynamic precedence) crossed with every token string up to a length bound; each accepted grammar is generated and compiled by the current generator and its parser compared with an independent derivation enumerator (membership + expected visible tree) and a Pratt parser.",
         "The reference deriver/Pratt parser are the specification. Grammars the generator rejects are skipped and counted. G1 grammars that are ambiguous yet accepted are counted, and only 'tree is one of the derivations' is asserted for them.",
         "bounded-exhaustive enumeration of (grammar, string) with reference derivation enumerator and Pratt parser", "DESIGN.md §2 C03"),
 "C15": ("model_checking", "Equivalence of the MergeStates and unoptimised parsers, enumerated exhaustively over every accepted grammar of the C03 families (incl. LR(1)-but-not-LALR(1) grammars) and the zoo, crossed with every string of the respective box: same acceptance and identical trees on accepted strings. Determinism: every grammar generated in three separate processes through both API paths, parser.c and node-types.json compared byte for byte.",
         "The process dimension of the determinism part is three draws, not an enumeration (exhaustive=false is reported for it).",
         "bounded-exhaustive differential enumeration over (grammar, string); repeated generation in separate processes", "DESIGN.md §2 C15"),
 "C16": ("model_checking", "Every zoo grammar and every accepted family grammar is generated through the CLI path so that parser.c and node-types.json come from one run; every error-free tree over the box is validated against node-types.json (types, fields, children, supertypes, required/multiple, extras, root); all symbol and field ids round-trip; for all states x terminals a successor implies membership in the look-ahead iterator, and along every accepted token string the next token is listed in the state after the previous one.",
         "Anonymous field-less children are not described by node-types.json. Look-ahead-along-string is skipped for GLR grammars (leaf parse states may belong to dropped stack versions). Supertype ids are looked up as named.",
         "bounded-exhaustive enumeration of (grammar, tree) and (state, symbol) against the generated metadata", "DESIGN.md §2 C16"),
 "C14": ("model_checking", "Bounded-exhaustive enumeration of token sets (all ordered pairs of 39 menu variants, all ordered triples of 13 plain items, in a token-soup grammar and a two-context grammar, plus keyword grammars; extras none/space) crossed with every input string up to the length bound; the leaf sequence of the real generated lexer/parser is compared with a reference tokenizer built on the independent `regex` crate that applies the five documented disambiguation rules.",
         "The documented rule list is the specification. Quick tier takes an evenly spread subset of each family (reported as a cap in bounds).",
         "bounded-exhaustive enumeration of (token set, input) with a regex-based reference tokenizer", "DESIGN.md §2 C14"),
 "C05": ("model_checking", "Bounded-exhaustive enumeration of a query family generated from a pattern AST (roots: named kinds, wildcards, anonymous, ERROR, MISSING variants, supertype, supertype/subtype; 0-2 children with fields, negated fields, anchors in every slot, alternation, quantifiers, captures on every node) for three languages, crossed with every tree of a bounded document family (valid, erroneous, edited-and-reparsed); the real cursor's matches are compared with an independent backtracking matcher written from the query documentation: soundness for all queries, exact completeness for quantifier-free ones, plus compile-time acceptance.",
         "Wildcards do not match ERROR nodes (reconciled with the implementation; the documentation is silent). Anchors next to anonymous/wildcard/quantified children and supertype patterns with children are outside the asserted family. Two known findings about over-eager rejection.",
         "bounded-exhaustive enumeration of (query, tree) with a reference backtracking matcher", "DESIGN.md §2 C05"),
 "C11": ("model_checking", "For every (query, tree) of a bounded family (single patterns, all ordered two-pattern combinations, predicate queries; stmts and jsonish trees, valid and erroneous) every cursor configuration is enumerated: capture stream vs match stream, EVERY byte and point range (intersecting and containing variants), cursor reuse histories, max start depths, match limits 1/2/3/4/8 with the exceeded flag, remove_match at every capture position, and the Rust iterators against our own evaluation of the text predicates with contiguous and chunked text providers.",
         "Capture order asserted on start bytes; with quantifiers captures are compared as sets. Two known findings tied to the wildcard-root optimisation.",
         "bounded-exhaustive enumeration of (query, tree, cursor configuration) with cross-view consistency oracles", "DESIGN.md §2 C11"),
 "C17": ("model_checking", "Bounded-exhaustive enumeration of sources (seeds, all strings of <=k lexemes, all strings of <=4 adversarial byte atoms incl. CR/CRLF/NUL/invalid UTF-8) for four highlighter configurations (highlights+locals; injection plain / include-children / combined) x three recognised-name lists with one reused Highlighter; the event stream is checked for contiguous exact coverage, balanced non-nesting highlights that coincide with leaf nodes, containment of injected highlights in injection content, local references highlighted like their definitions (own scope walk), and the HTML renderer's output against the source under the documented normalisations.",
         "Highlight-to-language attribution needs the full recognised-name list (variant 0). Runs of U+FFFD compared collapsed. One known finding (extra newline).",
         "bounded-exhaustive input enumeration with event-stream invariants and reference scope resolution", "DESIGN.md §2 C17"),
 "C18": ("model_checking", "Bounded-exhaustive enumeration of sources for a tags language with doc comments, @ignore, local scopes and Unicode identifiers (all strings of <=k lexemes, every placement of 0-4-byte characters before and inside up to three names on one line, classes whose tag completes after the tags inside them, 170-190-byte lines with a multi-byte character across byte 180, CRLF), one reused TagsContext; the emitted tag set and every field of every tag (ranges, trimmed line range, span, UTF-16 columns, docs, kind) are recomputed from the source bytes and our own tree evaluation.",
         "Locality: a name is local if an enclosing scope holds an earlier definition with the same text. A panic inside the code under test is reported as a violation.",
         "bounded-exhaustive input enumeration with per-tag recomputation from the source bytes", "DESIGN.md §2 C18"),
 "C19": ("model_checking", "Explicit-state depth-first search over the real loader protocol run by real processes: 2 (thorough 3) loader processes built with hook H3 are stepped point by point by a scheduler that also injects crashes (SIGKILL of the process group at any point, including between the two halves of the library write) and timeout answers; visited-set on (per-loader point/result, lock, output class, temp files, budgets), every state re-reached by replaying its schedule from scratch; initial cache states {no library, stale, fresh} x {leftover temp} x {leftover lock}. Oracle: Ok results are the current version, no partial file is visible at the point before dlopen, and after a crash a fresh loader succeeds within one timeout answer.",
         "The C compiler is replaced by a wrapper that copies a prebuilt library of the version named in parser.c in two halves. Modification times are set explicitly. One known finding (stale lock after a crash).",
         "explicit-state DFS over process schedules, crash points and timeout answers on the real loader (controlled scheduler)", "DESIGN.md §2 C19"),
 "C20": ("model_checking", "Corpus files are generated from a structured description (every combination of name shape x attribute set x input incl. delimiter-looking lines x expected-output shape x header/divider length x suffix x line ending for single-test files, plus multi-test and 20-test files) and taken through the history update, check, update, update with the real CLI library code (run_tests_at_path with update=true, in a helper binary built from /repo); our own reader keyed on the known delimiter lines checks that names, attributes, order and input bytes survive, that only unfixable tests still fail, and that the second and third update are byte-identical.",
         "Inputs that the corpus format cannot express (a longer divider or a complete header block inside an input) are excluded. The helper binary links the CLI crate without its default features.",
         "bounded-exhaustive enumeration of corpus files x update histories with a structured reference reader", "DESIGN.md §2 C20"),
 "C12": ("exploration", "Enumeration of a finite family with a quantitative oracle: generated error-free documents of 1e3, 1e4 (thorough 1e5) tokens for six calibrated zoo languages (one with a GLR fork at every group header), a one-byte edit at every (strided) token position, measured through the public logger (lexed tokens), a 64-byte-chunk read callback (bytes served) and Node::id sharing between old and new tree; fixed per-language thresholds (>=10x margin over the reference tree, or 0.7x for the shared-node fraction) and a growth rule between sizes.",
         "A regression bound, not a proof of sub-linear behaviour. The scanner grammar `indent` and the GLR grammar `glr` are not calibrated: on the reference tree they re-lex (almost) everything after the edit, so no meaningful bound exists (recorded in DESIGN.md).",
         "exhaustive enumeration of (language, size, edit position) with measured thresholds", "DESIGN.md §2 C12"),
}
# sentences added when families were added later (kept apart so that the table above stays readable)
EXTRA = {
 "C01": " The zoo includes a scanner whose tokens depend on their column (get_column) and one whose state flows across untouched siblings. Start documents with a truncated three-byte character and the atoms that complete it byte by byte.",
 "C03": " G7: every layout of per-production alias rows; G8: a two-action (reduce + shift) table entry in front of equal-core states.",
 "C05": " Alternations of two and three branches are enumerated in every anchored child slot. A fourth query language has fields on hidden rules that stay in the tree.",
 "C08": " The edit alphabet includes multi-element appends behind a gap, so that nodes ending in a long repetition are reused whole and re-balanced. Both tiers end with a free-running ThreadSanitizer pass over the same thread bodies (evidence/C08-tsan.json): it covers accesses that bypass the hooked operations, which the controlled scheduler cannot interleave; the verdict on interleavings stays the schedule enumeration.",
 "C09": " UTF-16 is also delivered as raw bytes through the C read callback with every window of 4-9 bytes. Histories that leave included ranges in force before a final parse under an explicit range list.",
 "C11": " All nesting structures of <=8 (thorough 10) arrays and flat arrays of <=7 (9) numbers under multi-capture queries with predicates: the capture stream must be in document order. Under every range the capture stream equals the in-range captures of the matches under that range.",
 "C14": " Family (v): ordered pairs (thorough: triples) of tokens over large Unicode classes in subset/overlap relations. Family (vii): tokens with the extras character inside them; family (viii): lex states merged across contexts (one known finding).",
 "C15": " Includes G7 and G8 of C03.",
 "C17": " Two further recognised-name lists leave out one kind of local definition each (shadowing documents in the seeds). The locals query is also used with the reference pattern first; a definition must carry its own highlight.",
 "C18": " The language has a scope whose last token is a reference.",
 "C02": " The zoo includes a token with the extras character inside it.",
 "C06": " Plus a language with an inner field inside a fielded hidden rule.",
}
REASON_WIP = "check not built yet (work in progress; see DESIGN.md build order)"
def main():
    checks = []
    for pid in ALL:
        if pid not in CHECKS: continue
        cat, text, note, tech, ref = CHECKS[pid]
        text = text + EXTRA.get(pid, "")
        checks.append({
          "property_id": pid, "quick_cmd": f"./vf check {pid} quick", "thorough_cmd": f"./vf check {pid} thorough",
          "evidence_file": f"/verif/evidence/{pid}.json", "replay_cmd_template": "./vf replay {path}", "engine": "vf-engine",
          "level_claimed": {"category": cat, "text": text, "design_ref": ref}, "level_note": note, "technique": tech})
    m = {
     "version": 1, "setup_cmd": "./vf setup",
     "hooks": {
       "guard": "TREE_SITTER_VERIF (C macro, passed as CFLAGS=-DTREE_SITTER_VERIF) / --cfg tree_sitter_verif (Rust)",
       "enable": "./vf builds /verif/engine (path dependencies on /repo crates) with CFLAGS=-DTREE_SITTER_VERIF RUSTFLAGS='--cfg tree_sitter_verif' into /verif/work/target-<flavour>",
       "baseline_off_cmd": "cd /repo && cargo test --workspace --no-fail-fast --offline",
       "source_commits": hooks_commits(), "add_only": True},
     "engines": [{"name": "vf-cli", "path": "/verif/engine-cli", "serves_properties": ["C20"], "kind_free_text": "helper binary that runs the CLI crate's corpus-test code (tree_sitter_cli::test::run_tests_at_path) against a generated parser"}, {"name": "vf-engine", "path": "/verif/engine", "serves_properties": sorted(CHECKS), "kind_free_text": "explicit-state / bounded-exhaustive explorers in Rust driving the real tree-sitter runtime, generator and tools; 16 worker processes; crash capture"}],
     "checks": checks,
     "not_applicable": [{"property_id": p, "reason": REASON_WIP} for p in ALL if p not in CHECKS],
     "notes": "All checks rebuild the engine and every generated parser from /repo's working tree before running. Known findings: /verif/known_findings.json."}
    json.dump(m, open('/verif/MANIFEST.json', 'w'), indent=1)
main()
