// External scanner for the `seam` zoo language (written for the verification project).
// Stateless. Every word is an external token; a word whose first letter is the first byte of an included range
// (TSLexer.is_at_included_range_start) is a `seam_word`, any other a `plain_word`.
#include "tree_sitter/parser.h"

enum { SEAM_WORD, PLAIN_WORD };

void *tree_sitter_seam_external_scanner_create(void) { return 0; }
void tree_sitter_seam_external_scanner_destroy(void *payload) { (void)payload; }
unsigned tree_sitter_seam_external_scanner_serialize(void *payload, char *buffer) { (void)payload; (void)buffer; return 0; }
void tree_sitter_seam_external_scanner_deserialize(void *payload, const char *buffer, unsigned length) { (void)payload; (void)buffer; (void)length; }

bool tree_sitter_seam_external_scanner_scan(void *payload, TSLexer *lexer, const bool *valid_symbols) {
  (void)payload;
  while (lexer->lookahead == ' ' || lexer->lookahead == '\n' || lexer->lookahead == '\t' || lexer->lookahead == '\r') lexer->advance(lexer, true);
  if (!(lexer->lookahead >= 'a' && lexer->lookahead <= 'z')) return false;
  if (!valid_symbols[SEAM_WORD] && !valid_symbols[PLAIN_WORD]) return false;
  bool at_start = lexer->is_at_included_range_start(lexer);
  while (lexer->lookahead >= 'a' && lexer->lookahead <= 'z') lexer->advance(lexer, false);
  lexer->result_symbol = at_start ? SEAM_WORD : PLAIN_WORD;
  return valid_symbols[lexer->result_symbol];
}
