// External scanner for the `colm` zoo language (written for the verification project).
// Stateless; every token it produces depends on the column it starts at (TSLexer.get_column):
//   before '!'  a zero-width `odd` / `even` token by column parity,
//   '@'         an `at_low` (column < 4) or `at_high` token.
#include "tree_sitter/parser.h"

enum { ODD, EVEN, AT_LOW, AT_HIGH };

void *tree_sitter_colm_external_scanner_create(void) { return 0; }
void tree_sitter_colm_external_scanner_destroy(void *payload) { (void)payload; }
unsigned tree_sitter_colm_external_scanner_serialize(void *payload, char *buffer) { (void)payload; (void)buffer; return 0; }
void tree_sitter_colm_external_scanner_deserialize(void *payload, const char *buffer, unsigned length) { (void)payload; (void)buffer; (void)length; }

bool tree_sitter_colm_external_scanner_scan(void *payload, TSLexer *lexer, const bool *valid_symbols) {
  (void)payload;
  while (lexer->lookahead == ' ' || lexer->lookahead == '\n' || lexer->lookahead == '\t' || lexer->lookahead == '\r') lexer->advance(lexer, true);
  if (lexer->lookahead == '!' && (valid_symbols[ODD] || valid_symbols[EVEN])) {
    uint32_t column = lexer->get_column(lexer);
    lexer->result_symbol = (column % 2) ? ODD : EVEN;
    return valid_symbols[lexer->result_symbol];
  }
  if (lexer->lookahead == '@' && (valid_symbols[AT_LOW] || valid_symbols[AT_HIGH])) {
    uint32_t column = lexer->get_column(lexer);
    lexer->advance(lexer, false);
    lexer->result_symbol = column < 4 ? AT_LOW : AT_HIGH;
    return valid_symbols[lexer->result_symbol];
  }
  return false;
}
