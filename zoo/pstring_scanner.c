// External scanner for the `pstring` zoo language (written for the verification project).
// Percent strings with nested delimiters and interpolation. All state is serialised.
#include "tree_sitter/parser.h"
#include <stdlib.h>
#include <string.h>

enum { PSTRING_START, PSTRING_CONTENT, PSTRING_END };

#define MAX_NEST 8

typedef struct {
  uint8_t count;
  struct { uint8_t open, close, depth; } e[MAX_NEST];
} Scanner;

void *tree_sitter_pstring_external_scanner_create(void) { return calloc(1, sizeof(Scanner)); }
void tree_sitter_pstring_external_scanner_destroy(void *payload) { free(payload); }

unsigned tree_sitter_pstring_external_scanner_serialize(void *payload, char *buffer) {
  Scanner *s = payload;
  unsigned n = 0;
  if (s->count == 0) return 0;
  buffer[n++] = (char)s->count;
  for (unsigned i = 0; i < s->count; i++) {
    buffer[n++] = (char)s->e[i].open;
    buffer[n++] = (char)s->e[i].close;
    buffer[n++] = (char)s->e[i].depth;
  }
  return n;
}

void tree_sitter_pstring_external_scanner_deserialize(void *payload, const char *buffer, unsigned length) {
  Scanner *s = payload;
  memset(s, 0, sizeof(*s));
  if (length == 0) return;
  s->count = (uint8_t)buffer[0];
  if (s->count > MAX_NEST) s->count = MAX_NEST;
  for (unsigned i = 0; i < s->count; i++) {
    s->e[i].open = (uint8_t)buffer[1 + 3 * i];
    s->e[i].close = (uint8_t)buffer[2 + 3 * i];
    s->e[i].depth = (uint8_t)buffer[3 + 3 * i];
  }
}

bool tree_sitter_pstring_external_scanner_scan(void *payload, TSLexer *lexer, const bool *valid) {
  Scanner *s = payload;
  if (valid[PSTRING_START] && valid[PSTRING_CONTENT] && valid[PSTRING_END]) return false;

  if (valid[PSTRING_START]) {
    while (lexer->lookahead == ' ' || lexer->lookahead == '\t' || lexer->lookahead == '\n' || lexer->lookahead == '\r') {
      lexer->advance(lexer, true);
    }
    if (lexer->lookahead != '%') return false;
    lexer->advance(lexer, false);
    uint8_t open, close;
    switch (lexer->lookahead) {
      case '(': open = '('; close = ')'; break;
      case '[': open = '['; close = ']'; break;
      default: return false;
    }
    if (s->count >= MAX_NEST) return false;
    lexer->advance(lexer, false);
    s->e[s->count].open = open;
    s->e[s->count].close = close;
    s->e[s->count].depth = 0;
    s->count++;
    lexer->result_symbol = PSTRING_START;
    return true;
  }

  if ((valid[PSTRING_CONTENT] || valid[PSTRING_END]) && s->count > 0) {
    uint8_t open = s->e[s->count - 1].open;
    uint8_t close = s->e[s->count - 1].close;
    uint8_t depth = s->e[s->count - 1].depth;

    if (valid[PSTRING_END] && depth == 0 && lexer->lookahead == close) {
      lexer->advance(lexer, false);
      s->count--;
      lexer->result_symbol = PSTRING_END;
      return true;
    }
    if (!valid[PSTRING_CONTENT]) return false;

    bool has_content = false;
    for (;;) {
      lexer->mark_end(lexer);
      if (lexer->eof(lexer)) break;
      int32_t c = lexer->lookahead;
      if (c == '#') {
        lexer->advance(lexer, false);
        if (lexer->lookahead == '{') break;
        has_content = true;
        continue;
      }
      if (c == close && depth == 0) break;
      if (c == close) depth--;
      else if (c == open && depth < 250) depth++;
      lexer->advance(lexer, false);
      has_content = true;
    }
    if (has_content) {
      s->e[s->count - 1].depth = depth;
      lexer->result_symbol = PSTRING_CONTENT;
      return true;
    }
  }
  return false;
}
