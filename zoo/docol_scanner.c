// External scanner for the `docol` zoo language: the scanner of the repository's own test grammar
// `uses_current_column` (test/fixtures/test_grammars/uses_current_column/scanner.c), renamed, with plain malloc/free and a
// bound on the indent stack. A `do` block is as deep as the COLUMN of the token that follows `do` (TSLexer.get_column),
// so the scanner's state depends on where tokens sit within their line, not only on leading white space.
#include "tree_sitter/parser.h"
#include <stdlib.h>
#include <wctype.h>

enum TokenType { INDENT, DEDENT, NEWLINE };

#define MAX_INDENTS 32

typedef struct {
  uint8_t queued_dedent_count;
  uint8_t indent_count;
  int8_t indents[MAX_INDENTS];
} Scanner;

void *tree_sitter_docol_external_scanner_create(void) {
  Scanner *self = malloc(sizeof(Scanner));
  self->queued_dedent_count = 0;
  self->indent_count = 1;
  self->indents[0] = 0;
  return self;
}

void tree_sitter_docol_external_scanner_destroy(void *payload) { free(payload); }

unsigned tree_sitter_docol_external_scanner_serialize(void *payload, char *buffer) {
  Scanner *self = payload;
  buffer[0] = (char)self->queued_dedent_count;
  for (unsigned i = 0; i < self->indent_count; i++) buffer[i + 1] = (char)self->indents[i];
  return self->indent_count + 1u;
}

void tree_sitter_docol_external_scanner_deserialize(void *payload, const char *buffer, unsigned length) {
  Scanner *self = payload;
  if (length > 0) {
    self->queued_dedent_count = (uint8_t)buffer[0];
    self->indent_count = (uint8_t)(length - 1);
    if (self->indent_count > MAX_INDENTS) self->indent_count = MAX_INDENTS;
    for (unsigned i = 0; i < self->indent_count; i++) self->indents[i] = (int8_t)buffer[i + 1];
  } else {
    self->queued_dedent_count = 0;
    self->indent_count = 1;
    self->indents[0] = 0;
  }
}

bool tree_sitter_docol_external_scanner_scan(void *payload, TSLexer *lexer, const bool *valid_symbols) {
  Scanner *self = payload;
  lexer->mark_end(lexer);

  // If dedents were found in a previous run, and are valid now, then return a dedent.
  if (self->queued_dedent_count > 0 && valid_symbols[DEDENT]) {
    lexer->result_symbol = DEDENT;
    self->queued_dedent_count--;
    return true;
  }

  // If an indent is valid, then add an entry to the indent stack for the current column, and return an indent.
  if (valid_symbols[INDENT]) {
    while (iswspace(lexer->lookahead)) lexer->advance(lexer, false);
    uint32_t column = lexer->get_column(lexer);
    if (column > 100) column = 100;
    if ((int)column > self->indents[self->indent_count - 1] && self->indent_count < MAX_INDENTS) {
      self->indents[self->indent_count++] = (int8_t)(column - 2);
      lexer->result_symbol = INDENT;
      return true;
    } else {
      return false;
    }
  }

  // If at the end of a statement, then get the current indent level and pop some number of entries off of the stack.
  if (valid_symbols[NEWLINE] || valid_symbols[DEDENT]) {
    while (iswspace(lexer->lookahead) && lexer->lookahead != '\n') lexer->advance(lexer, false);

    if (lexer->lookahead == '\n') {
      lexer->advance(lexer, false);

      uint32_t next_column = 0;
      for (;;) {
        if (lexer->lookahead == ' ') { next_column++; lexer->advance(lexer, false); }
        else if (lexer->lookahead == '\n') { next_column = 0; lexer->advance(lexer, false); }
        else break;
      }
      if (next_column > 100) next_column = 100;

      unsigned dedent_count = 0;
      while (self->indent_count > 1 && (int)next_column < self->indents[self->indent_count - 1]) {
        dedent_count++;
        self->indent_count--;
      }

      if (dedent_count > 0 && valid_symbols[DEDENT]) {
        lexer->result_symbol = DEDENT;
        self->queued_dedent_count = (uint8_t)(self->queued_dedent_count + dedent_count - 1);
        return true;
      } else if (valid_symbols[NEWLINE]) {
        self->queued_dedent_count = (uint8_t)(self->queued_dedent_count + dedent_count);
        lexer->result_symbol = NEWLINE;
        return true;
      }
    }
  }

  return false;
}
