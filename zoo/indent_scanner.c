// External scanner for the `indent` zoo language (written for the verification project).
// All scanner state (the indent stack) lives in the serialised buffer.
#include "tree_sitter/parser.h"
#include <stdlib.h>
#include <string.h>

enum { NEWLINE, INDENT, DEDENT };

#define MAX_DEPTH 32

typedef struct {
  uint8_t count;
  uint8_t stack[MAX_DEPTH];
} Scanner;

void *tree_sitter_indent_external_scanner_create(void) {
  Scanner *s = calloc(1, sizeof(Scanner));
  s->count = 1;
  s->stack[0] = 0;
  return s;
}

void tree_sitter_indent_external_scanner_destroy(void *payload) { free(payload); }

unsigned tree_sitter_indent_external_scanner_serialize(void *payload, char *buffer) {
  Scanner *s = payload;
  buffer[0] = (char)s->count;
  memcpy(buffer + 1, s->stack, s->count);
  return 1u + s->count;
}

void tree_sitter_indent_external_scanner_deserialize(void *payload, const char *buffer, unsigned length) {
  Scanner *s = payload;
  memset(s, 0, sizeof(*s));
  if (length == 0) {
    s->count = 1;
    s->stack[0] = 0;
    return;
  }
  s->count = (uint8_t)buffer[0];
  if (s->count > MAX_DEPTH) s->count = MAX_DEPTH;
  memcpy(s->stack, buffer + 1, s->count);
}

bool tree_sitter_indent_external_scanner_scan(void *payload, TSLexer *lexer, const bool *valid) {
  Scanner *s = payload;
  // error recovery: every external token is marked valid; refuse, conservatively
  if (valid[NEWLINE] && valid[INDENT] && valid[DEDENT]) return false;

  lexer->mark_end(lexer);
  bool found_eol = false;
  uint32_t indent = 0;
  for (;;) {
    if (lexer->lookahead == '\n') { found_eol = true; indent = 0; lexer->advance(lexer, true); }
    else if (lexer->lookahead == ' ') { indent++; lexer->advance(lexer, true); }
    else if (lexer->lookahead == '\t') { indent += 8; lexer->advance(lexer, true); }
    else if (lexer->lookahead == '\r') { indent = 0; lexer->advance(lexer, true); }
    else if (lexer->eof(lexer)) { indent = 0; found_eol = true; break; }
    else break;
  }
  if (indent > 200) indent = 200;

  if (found_eol) {
    uint8_t current = s->stack[s->count - 1];
    if (valid[INDENT] && indent > current && s->count < MAX_DEPTH) {
      s->stack[s->count++] = (uint8_t)indent;
      lexer->result_symbol = INDENT;
      return true;
    }
    if (valid[DEDENT] && indent < current && s->count > 1) {
      s->count--;
      lexer->result_symbol = DEDENT;
      return true;
    }
    if (valid[NEWLINE]) {
      lexer->result_symbol = NEWLINE;
      return true;
    }
  }
  return false;
}
