// External scanner for the `modal` zoo language (written for the verification project).
// One bit of state, serialised completely: every '!' toggles it, and a word is a `loud_word` or a `plain_word` according to
// the state at that point. The state set by one token is consumed by tokens in later, otherwise untouched, sibling nodes.
#include "tree_sitter/parser.h"
#include <stdlib.h>

enum { BANG, LOUD_WORD, PLAIN_WORD };

typedef struct { unsigned char loud; } Scanner;

void *tree_sitter_modal_external_scanner_create(void) { return calloc(1, sizeof(Scanner)); }
void tree_sitter_modal_external_scanner_destroy(void *payload) { free(payload); }
unsigned tree_sitter_modal_external_scanner_serialize(void *payload, char *buffer) {
  Scanner *s = payload;
  if (!s->loud) return 0;
  buffer[0] = 1;
  return 1;
}
void tree_sitter_modal_external_scanner_deserialize(void *payload, const char *buffer, unsigned length) {
  Scanner *s = payload;
  s->loud = length > 0 ? (unsigned char)buffer[0] : 0;
}

bool tree_sitter_modal_external_scanner_scan(void *payload, TSLexer *lexer, const bool *valid_symbols) {
  Scanner *s = payload;
  while (lexer->lookahead == ' ' || lexer->lookahead == '\n' || lexer->lookahead == '\t' || lexer->lookahead == '\r') lexer->advance(lexer, true);
  if (lexer->lookahead == '!' && valid_symbols[BANG]) {
    lexer->advance(lexer, false);
    s->loud = !s->loud;
    lexer->result_symbol = BANG;
    return true;
  }
  if (lexer->lookahead >= 'a' && lexer->lookahead <= 'z' && (valid_symbols[LOUD_WORD] || valid_symbols[PLAIN_WORD])) {
    while (lexer->lookahead >= 'a' && lexer->lookahead <= 'z') lexer->advance(lexer, false);
    lexer->result_symbol = s->loud ? LOUD_WORD : PLAIN_WORD;
    return valid_symbols[lexer->result_symbol];
  }
  return false;
}
