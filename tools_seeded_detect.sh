#!/usr/bin/env bash
# usage: tools_seeded_detect.sh <patch.diff> <tier> <ID> [<ID>...]   — applies the patch to /repo, runs the checks, reverts
patch="$1"; tier="$2"; shift 2
cd /repo || exit 2
if [ -n "$(git status --porcelain --untracked-files=no)" ]; then echo "REPO NOT CLEAN"; exit 2; fi
git apply "$patch" || { echo "PATCH DOES NOT APPLY"; exit 2; }
cd /verif
for id in "$@"; do
  out=$(VF_EVIDENCE_NAME=.seeded-scratch.json ./vf check "$id" "$tier" 2>&1)
  rc=$?
  nviol=$(echo "$out" | grep -c '^VIOLATION')
  first=$(echo "$out" | grep -m1 '^\s*\[' | cut -c1-260)
  echo "$id $tier rc=$rc violations=$nviol  $first"
done
git -C /repo checkout -- .
rm -f /verif/evidence/.seeded-scratch.json /verif/evidence/.seeded-scratch-tsan.json /verif/evidence/C08-tsan.json.seeded 2>/dev/null
git -C /repo status --porcelain --untracked-files=no | head -3
