#!/usr/bin/env python3
# Prints the cost table of DESIGN.md section 3 from the evidence files of the last runs (tier, wall time, coverage).
import json
print("| prop | level | tier | wall | states | transitions | non-trivial |")
print("|---|---|---|---|---|---|---|")
for n in range(1, 21):
    pid = f"C{n:02d}"
    try: d = json.load(open(f"/verif/evidence/{pid}.json"))
    except Exception as e: print(f"| {pid} | - | - | - | - | - | - |"); continue
    c = d.get("coverage", {})
    print(f"| {pid} | {d.get('level')} | {d.get('tier')} | {d.get('wall_s', 0):.0f} s | {c.get('states', 0):,} | {c.get('transitions', 0):,} | {c.get('distinct_nontrivial', 0):,} |")
