#!/usr/bin/env bash
# Run the repository's own suite (hook guard OFF) and compare the pass set with BASELINE.json's stable_pass list.
# usage: tools_baseline.sh [repo_dir]   (default /repo)
REPO="${1:-/repo}"
LOG="${2:-/verif/work/baseline.log}"
mkdir -p "$(dirname "$LOG")"
cd "$REPO" && cargo nextest run --workspace --no-fail-fast --test-threads 8 --offline > "$LOG" 2>&1
python3 - "$LOG" <<'PY'
import json, re, sys
log = open(sys.argv[1], errors='replace').read()
passed = set()
for m in re.finditer(r'^\s+PASS \[[^\]]*\]\s+(?:\(\s*\d+/\d+\)\s+)?(\S+)\s+(\S+)', log, re.M):
    passed.add(m.group(1) + '::' + m.group(2))
base = set(json.load(open('/root/.vp/BASELINE.json'))['stable_pass'])
missing = sorted(base - passed)
print(f"baseline stable={len(base)} passed_now={len(passed)} missing={len(missing)}")
for m in missing[:20]: print("  MISSING", m)
sys.exit(1 if missing else 0)
PY
